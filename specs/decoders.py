"""Independent decoders of the trajectory file formats mdtraj can write.

Every decoder here is written from the *published format description* (cited per function), not from
mdtraj's readers or writers, and imports nothing from mdtraj.  They return the numbers stored in the file
in the format's NATIVE units and layout:

    {"n_frames": int, "n_atoms": int,
     "xyz":   float64 array (n_frames, n_atoms, 3)   native length unit,
     "time":  float64 array (n_frames,) or None       (None: the format/file stores no time),
     "cell_lengths": (n_frames, 3) or None, "cell_angles": (n_frames, 3) degrees or None,
     "box_vectors":  (n_frames, 3, 3) or None          (formats that store a matrix: xtc, trr, gro),
     "units": {...declared unit strings, where the format declares them...},
     "extra": {...}}

Native length units (from the format specifications): Angstrom for dcd, AMBER NetCDF (nc/ncrst), mdcrd,
rst7, xyz, lammpstrj(`units real`), pdb; nanometre for xtc, trr, gro and the MDTraj HDF5 convention.

Only third-party *container* libraries are used (scipy.io.netcdf_file for NetCDF-3, PyTables for HDF5,
gzip); everything else is struct / column slicing.
"""
from __future__ import annotations

import gzip
import math
import os
import struct

import numpy as np

NATIVE_UNIT = {  # format family -> native length unit, from the format specifications
    "dcd": "angstrom", "nc": "angstrom", "ncrst": "angstrom", "mdcrd": "angstrom", "rst7": "angstrom",
    "xyz": "angstrom", "lammpstrj": "angstrom", "pdb": "angstrom", "dtr": "angstrom",
    "xtc": "nanometer", "trr": "nanometer", "gro": "nanometer", "h5": "nanometer",
}
NM_TO_NATIVE = {"angstrom": 10.0, "nanometer": 1.0}


class DecodeError(Exception):
    """the bytes do not conform to the format description (this is a finding about the WRITER)"""


def _result(xyz, time=None, cell_lengths=None, cell_angles=None, box_vectors=None, units=None, extra=None):
    xyz = np.asarray(xyz, dtype=np.float64)
    return {"n_frames": int(xyz.shape[0]), "n_atoms": int(xyz.shape[1]) if xyz.ndim == 3 else 0, "xyz": xyz,
            "time": None if time is None else np.asarray(time, dtype=np.float64),
            "cell_lengths": None if cell_lengths is None else np.asarray(cell_lengths, dtype=np.float64),
            "cell_angles": None if cell_angles is None else np.asarray(cell_angles, dtype=np.float64),
            "box_vectors": None if box_vectors is None else np.asarray(box_vectors, dtype=np.float64),
            "units": units or {}, "extra": extra or {}}


# ---------------------------------------------------------------------------------------------
# unit-cell algebra (crystallographic convention: a along x, b in the xy plane; angles alpha=(b,c),
# beta=(a,c), gamma=(a,b)) -- International Tables / GROMACS manual "periodic boundary conditions"
# ---------------------------------------------------------------------------------------------
def box_vectors_from_lengths_angles(lengths, angles_deg):
    lengths = np.asarray(lengths, dtype=np.float64)
    ang = np.radians(np.asarray(angles_deg, dtype=np.float64))
    a, b, c = lengths[..., 0], lengths[..., 1], lengths[..., 2]
    ca, cb, cg = np.cos(ang[..., 0]), np.cos(ang[..., 1]), np.cos(ang[..., 2])
    sg = np.sin(ang[..., 2])
    out = np.zeros(lengths.shape[:-1] + (3, 3))
    out[..., 0, 0] = a
    out[..., 1, 0] = b * cg
    out[..., 1, 1] = b * sg
    cx = c * cb
    cy = c * (ca - cb * cg) / sg
    out[..., 2, 0] = cx
    out[..., 2, 1] = cy
    out[..., 2, 2] = np.sqrt(np.maximum(c * c - cx * cx - cy * cy, 0.0))
    return out


def lengths_angles_from_box_vectors(vectors):
    v = np.asarray(vectors, dtype=np.float64)
    a, b, c = v[..., 0, :], v[..., 1, :], v[..., 2, :]
    la, lb, lc = (np.linalg.norm(x, axis=-1) for x in (a, b, c))
    with np.errstate(invalid="ignore", divide="ignore"):
        alpha = np.degrees(np.arccos(np.sum(b * c, axis=-1) / (lb * lc)))
        beta = np.degrees(np.arccos(np.sum(a * c, axis=-1) / (la * lc)))
        gamma = np.degrees(np.arccos(np.sum(a * b, axis=-1) / (la * lb)))
    return np.stack([la, lb, lc], axis=-1), np.stack([alpha, beta, gamma], axis=-1)


# ---------------------------------------------------------------------------------------------
# DCD  (CHARMM "CORD" trajectory; layout as documented in the CHARMM dynamc/cvio sources and the
# NAMD/VMD format notes: three Fortran unformatted header records, then per frame an optional
# 6-double unit-cell record and three float32 records X, Y, Z).  Lengths in Angstrom.
# ---------------------------------------------------------------------------------------------
def decode_dcd(path):
    with open(path, "rb") as fh:
        buf = fh.read()
    if len(buf) < 92:
        raise DecodeError("dcd: shorter than the first header record")
    if struct.unpack("<i", buf[:4])[0] == 84:
        e = "<"
    elif struct.unpack(">i", buf[:4])[0] == 84:
        e = ">"
    else:
        raise DecodeError("dcd: first record marker is not 84")
    if buf[4:8] != b"CORD":
        raise DecodeError("dcd: magic is not CORD")
    icntrl = struct.unpack(e + "20i", buf[8:88])
    if struct.unpack(e + "i", buf[88:92])[0] != 84:
        raise DecodeError("dcd: first record end marker is not 84")
    nset, istart, nsavc = icntrl[0], icntrl[1], icntrl[2]
    nfixed = icntrl[8]
    charmm_version = icntrl[19]
    has_cell = bool(icntrl[10]) if charmm_version != 0 else False
    has_4d = bool(icntrl[11]) if charmm_version != 0 else False
    delta = struct.unpack(e + "f", buf[8 + 36:8 + 40])[0] if charmm_version != 0 else struct.unpack(e + "d", buf[8 + 36:8 + 44])[0]
    pos = 92
    (sz,) = struct.unpack(e + "i", buf[pos:pos + 4])
    (ntitle,) = struct.unpack(e + "i", buf[pos + 4:pos + 8])
    if sz != 4 + 80 * ntitle:
        raise DecodeError(f"dcd: title record size {sz} != 4+80*NTITLE ({ntitle})")
    title = buf[pos + 8:pos + 4 + sz]
    pos += 4 + sz
    if struct.unpack(e + "i", buf[pos:pos + 4])[0] != sz:
        raise DecodeError("dcd: title record end marker mismatch")
    pos += 4
    m1, natom, m2 = struct.unpack(e + "3i", buf[pos:pos + 12])
    if m1 != 4 or m2 != 4:
        raise DecodeError("dcd: NATOM record markers are not 4")
    pos += 12
    if nfixed != 0:
        raise DecodeError("dcd: fixed-atom files are not handled by this decoder")
    frame_bytes = (56 if has_cell else 0) + (4 if has_4d else 3) * (8 + 4 * natom)
    rest = len(buf) - pos
    if rest % frame_bytes != 0:
        raise DecodeError(f"dcd: {rest} payload bytes is not a multiple of the frame size {frame_bytes}")
    n_on_disk = rest // frame_bytes
    xyz = np.zeros((n_on_disk, natom, 3))
    lengths = np.zeros((n_on_disk, 3)) if has_cell else None
    angles = np.zeros((n_on_disk, 3)) if has_cell else None
    for i in range(n_on_disk):
        if has_cell:
            m1, = struct.unpack(e + "i", buf[pos:pos + 4])
            cell = struct.unpack(e + "6d", buf[pos + 4:pos + 52])
            m2, = struct.unpack(e + "i", buf[pos + 52:pos + 56])
            if m1 != 48 or m2 != 48:
                raise DecodeError("dcd: unit-cell record markers are not 48")
            pos += 56
            # CHARMM order: A, gamma, B, beta, alpha, C ; angles are stored as cosines by CHARMM >= 25 and NAMD,
            # as degrees by older writers: a value within [-1, 1] is a cosine.
            A, g, B, b, a, C = cell
            lengths[i] = (A, B, C)
            angles[i] = tuple(math.degrees(math.acos(v)) if -1.0 <= v <= 1.0 else v for v in (a, b, g))
        for k in range(3):
            m1, = struct.unpack(e + "i", buf[pos:pos + 4])
            if m1 != 4 * natom:
                raise DecodeError(f"dcd: coordinate record marker {m1} != 4*NATOM")
            xyz[i, :, k] = np.frombuffer(buf, dtype=e + "f4", count=natom, offset=pos + 4)
            m2, = struct.unpack(e + "i", buf[pos + 4 + 4 * natom:pos + 8 + 4 * natom])
            if m2 != m1:
                raise DecodeError("dcd: coordinate record end marker mismatch")
            pos += 8 + 4 * natom
        if has_4d:
            pos += 8 + 4 * natom
    return _result(xyz, None, lengths, angles,
                   extra={"header_nset": nset, "istart": istart, "nsavc": nsavc, "delta": delta, "has_cell": has_cell,
                          "frames_on_disk": n_on_disk, "title": title[:80].decode("latin-1").strip(), "endian": e})


# ---------------------------------------------------------------------------------------------
# XDR helpers (RFC 4506: big-endian, 4-byte alignment)
# ---------------------------------------------------------------------------------------------
class _XDR:
    def __init__(self, buf):
        self.b = buf
        self.p = 0

    def eof(self):
        return self.p >= len(self.b)

    def i(self):
        (v,) = struct.unpack(">i", self.b[self.p:self.p + 4])
        self.p += 4
        return v

    def f(self):
        (v,) = struct.unpack(">f", self.b[self.p:self.p + 4])
        self.p += 4
        return v

    def d(self):
        (v,) = struct.unpack(">d", self.b[self.p:self.p + 8])
        self.p += 8
        return v

    def arr(self, n, double=False):
        w = 8 if double else 4
        if self.p + w * n > len(self.b):
            raise DecodeError("xdr: truncated array")
        a = np.frombuffer(self.b, dtype=">f8" if double else ">f4", count=n, offset=self.p).astype(np.float64)
        self.p += w * n
        return a

    def string(self):
        n = self.i()
        s = self.b[self.p:self.p + n]
        self.p += (n + 3) // 4 * 4
        return s


# ---------------------------------------------------------------------------------------------
# XTC (GROMACS manual, "xtc" file format / xtcio: magic 1995, natoms, step, time, box[3][3], then the
# coordinate block: int natoms; when natoms <= 9 the coordinates follow as 3*natoms raw floats, otherwise
# they are compressed).  nm, ps.  Only the raw (<= 9 atoms) form is decoded here.
# ---------------------------------------------------------------------------------------------
def decode_xtc_raw(path):
    with open(path, "rb") as fh:
        x = _XDR(fh.read())
    xyz, time, step, box = [], [], [], []
    while not x.eof():
        magic = x.i()
        if magic != 1995:
            raise DecodeError(f"xtc: magic {magic} != 1995")
        natoms = x.i()
        step.append(x.i())
        time.append(x.f())
        box.append(x.arr(9).reshape(3, 3))
        n2 = x.i()
        if n2 != natoms:
            raise DecodeError("xtc: coordinate block atom count differs from the header")
        if natoms > 9:
            raise NotImplementedError("xtc: compressed coordinates (> 9 atoms) are not decoded independently")
        xyz.append(x.arr(3 * natoms).reshape(natoms, 3))
    if not xyz:
        raise DecodeError("xtc: no frames")
    return _result(np.array(xyz), time, box_vectors=np.array(box), extra={"step": step})


# ---------------------------------------------------------------------------------------------
# TRR (GROMACS trnio: magic 1993, version string "GMX_trn_file", 13 ints
# ir,e,box,vir,pres,top,sym,x,v,f sizes, natoms, step, nre, then t and lambda as reals; the real width
# (4 or 8) is box_size/9 or x_size/(3 natoms); then box, vir, pres, x, v, f).  nm, ps.
# ---------------------------------------------------------------------------------------------
def decode_trr(path):
    with open(path, "rb") as fh:
        x = _XDR(fh.read())
    xyz, time, step, box, lam, has_v, has_f = [], [], [], [], [], [], []
    while not x.eof():
        magic = x.i()
        if magic != 1993:
            raise DecodeError(f"trr: magic {magic} != 1993")
        slen = x.i()
        ver = x.string()
        if not ver.startswith(b"GMX_trn_file") or slen != len(ver) + 1 and slen != len(ver):
            raise DecodeError(f"trr: version string {ver!r} / slen {slen}")
        ir, e_, box_size, vir, pres, top, sym, x_size, v_size, f_size, natoms, st, nre = (x.i() for _ in range(13))
        if box_size:
            w = box_size // 9
        elif x_size:
            w = x_size // (3 * natoms)
        elif v_size:
            w = v_size // (3 * natoms)
        elif f_size:
            w = f_size // (3 * natoms)
        else:
            raise DecodeError("trr: cannot determine the precision of an empty frame")
        if w not in (4, 8):
            raise DecodeError(f"trr: real width {w}")
        dbl = w == 8
        t = x.d() if dbl else x.f()
        l_ = x.d() if dbl else x.f()
        if box_size not in (0, 9 * w) or x_size not in (0, 3 * natoms * w):
            raise DecodeError("trr: inconsistent block sizes")
        bx = x.arr(9, dbl).reshape(3, 3) if box_size else np.zeros((3, 3))
        if vir:
            x.arr(9, dbl)
        if pres:
            x.arr(9, dbl)
        if not x_size:
            raise DecodeError("trr: frame without coordinates")
        xyz.append(x.arr(3 * natoms, dbl).reshape(natoms, 3))
        if v_size:
            x.arr(3 * natoms, dbl)
        if f_size:
            x.arr(3 * natoms, dbl)
        time.append(t)
        step.append(st)
        box.append(bx)
        lam.append(l_)
        has_v.append(bool(v_size))
        has_f.append(bool(f_size))
    if not xyz:
        raise DecodeError("trr: no frames")
    return _result(np.array(xyz), time, box_vectors=np.array(box), extra={"step": step, "lambda": lam, "has_v": has_v, "has_f": has_f})


# ---------------------------------------------------------------------------------------------
# AMBER NetCDF trajectory convention 1.0 (ambermd.org/netcdf/nctraj.xhtml): NetCDF-3 64-bit offset,
# Conventions="AMBER", dims frame(unlimited) atom spatial(3) [cell_spatial cell_angular label];
# coordinates(frame,atom,spatial) float, units "angstrom"; time(frame) float "picosecond";
# cell_lengths(frame,cell_spatial) double "angstrom"; cell_angles(frame,cell_angular) double "degree".
# ---------------------------------------------------------------------------------------------
def _nc_attr(v, name):
    a = getattr(v, name, None)
    if isinstance(a, bytes):
        a = a.decode("ascii", "replace")
    return a


def decode_netcdf(path):
    from scipy.io import netcdf_file

    with netcdf_file(path, "r", mmap=False) as f:
        conv = _nc_attr(f, "Conventions")
        if conv != "AMBER":
            raise DecodeError(f"netcdf: Conventions {conv!r} != 'AMBER'")
        if "coordinates" not in f.variables:
            raise DecodeError("netcdf: no coordinates variable")
        c = f.variables["coordinates"]
        if c.dimensions != ("frame", "atom", "spatial"):
            raise DecodeError(f"netcdf: coordinates dimensions {c.dimensions}")
        units = {"coordinates": _nc_attr(c, "units")}
        xyz = np.array(c[:], dtype=np.float64)
        scale = getattr(c, "scale_factor", None)
        if scale is not None:
            xyz = xyz * float(scale)
        time = None
        if "time" in f.variables:
            time = np.array(f.variables["time"][:], dtype=np.float64)
            units["time"] = _nc_attr(f.variables["time"], "units")
        lengths = angles = None
        if "cell_lengths" in f.variables:
            lengths = np.array(f.variables["cell_lengths"][:], dtype=np.float64)
            units["cell_lengths"] = _nc_attr(f.variables["cell_lengths"], "units")
        if "cell_angles" in f.variables:
            angles = np.array(f.variables["cell_angles"][:], dtype=np.float64)
            units["cell_angles"] = _nc_attr(f.variables["cell_angles"], "units")
        extra = {"version_byte": f.version_byte, "dtypes": {k: str(v.data.dtype) for k, v in f.variables.items()}}
    return _result(xyz, time, lengths, angles, units=units, extra=extra)


# AMBER NetCDF restart convention 1.0 (ambermd.org/netcdf/nctraj.xhtml, "restart"): Conventions="AMBERRESTART";
# coordinates(atom,spatial) double angstrom; time double picosecond; cell_lengths(cell_spatial), cell_angles(cell_angular)
def decode_ncrst(path):
    from scipy.io import netcdf_file

    with netcdf_file(path, "r", mmap=False) as f:
        conv = _nc_attr(f, "Conventions")
        if conv != "AMBERRESTART":
            raise DecodeError(f"ncrst: Conventions {conv!r} != 'AMBERRESTART'")
        c = f.variables["coordinates"]
        if c.dimensions != ("atom", "spatial"):
            raise DecodeError(f"ncrst: coordinates dimensions {c.dimensions}")
        units = {"coordinates": _nc_attr(c, "units")}
        xyz = np.array(c[:], dtype=np.float64)[None]
        time = None
        if "time" in f.variables:
            time = np.array(f.variables["time"][:], dtype=np.float64).reshape(-1)[:1]
            units["time"] = _nc_attr(f.variables["time"], "units")
        lengths = angles = None
        if "cell_lengths" in f.variables:
            lengths = np.array(f.variables["cell_lengths"][:], dtype=np.float64)[None]
            units["cell_lengths"] = _nc_attr(f.variables["cell_lengths"], "units")
        if "cell_angles" in f.variables:
            angles = np.array(f.variables["cell_angles"][:], dtype=np.float64)[None]
            units["cell_angles"] = _nc_attr(f.variables["cell_angles"], "units")
    return _result(xyz, time, lengths, angles, units=units)


# ---------------------------------------------------------------------------------------------
# MDTraj HDF5 convention 1.1 (mdtraj.org "HDF5 format specification"): /coordinates (frame, atom, 3) float32 with
# attribute units="nanometers"; /time (frame,) "picoseconds"; /cell_lengths (frame,3) "nanometers";
# /cell_angles (frame,3) "degrees".  Read through the PyTables node API only.
# ---------------------------------------------------------------------------------------------
def decode_hdf5(path):
    import tables

    def unit(node):
        u = node.attrs.units
        return u.decode() if isinstance(u, bytes) else str(u)

    with tables.open_file(path, "r") as h:
        names = {n._v_name for n in h.list_nodes("/")}
        if "coordinates" not in names:
            raise DecodeError("hdf5: no /coordinates")
        c = h.get_node("/", "coordinates")
        units = {"coordinates": unit(c)}
        xyz = np.array(c.read(), dtype=np.float64)
        out = {}
        for nm in ("time", "cell_lengths", "cell_angles"):
            if nm in names:
                n = h.get_node("/", nm)
                out[nm] = np.array(n.read(), dtype=np.float64)
                units[nm] = unit(n)
        extra = {"conventions": str(getattr(h.root._v_attrs, "conventions", "")),
                 "lengths": {nm: int(h.get_node("/", nm).shape[0]) for nm in names if nm in ("coordinates", "time", "cell_lengths", "cell_angles")},
                 "has_topology": "topology" in names}
    return _result(xyz, out.get("time"), out.get("cell_lengths"), out.get("cell_angles"), units=units, extra=extra)


# ---------------------------------------------------------------------------------------------
# text helpers
# ---------------------------------------------------------------------------------------------
def _read_text(path):
    if str(path).endswith(".gz"):
        with gzip.open(path, "rb") as fh:
            return fh.read().decode("utf-8")
    with open(path, "rb") as fh:
        return fh.read().decode("utf-8")


def _fixed(line, width, what):
    """split a Fortran fixed-width record into floats"""
    line = line.rstrip("\r\n")
    if len(line) % width:
        raise DecodeError(f"{what}: line length {len(line)} is not a multiple of the field width {width}: {line!r}")
    try:
        return [float(line[i:i + width]) for i in range(0, len(line), width)]
    except ValueError:
        raise DecodeError(f"{what}: non-numeric field in {line!r}")


# ---------------------------------------------------------------------------------------------
# AMBER mdcrd (ambermd.org/FileFormats.php#trajectory): title line; then for every frame the 3N
# coordinates in FORMAT(10F8.3) (Angstrom), followed, for periodic systems, by one line FORMAT(3F8.3)
# with the box lengths.  N and the presence of the box come from the topology (prmtop), i.e. the caller.
# ---------------------------------------------------------------------------------------------
def decode_mdcrd(path, n_atoms, has_box):
    lines = _read_text(path).split("\n")
    if lines and lines[-1] == "":
        lines.pop()
    if not lines:
        raise DecodeError("mdcrd: empty file")
    title = lines[0]
    per = -(-3 * n_atoms // 10)
    body = lines[1:]
    stride = per + (1 if has_box else 0)
    if len(body) % stride:
        raise DecodeError(f"mdcrd: {len(body)} data lines is not a multiple of {stride} lines per frame")
    xyz, boxes = [], []
    for k in range(len(body) // stride):
        vals = []
        for ln in body[k * stride:k * stride + per]:
            vals += _fixed(ln, 8, "mdcrd")
        if len(vals) != 3 * n_atoms:
            raise DecodeError(f"mdcrd: frame {k} holds {len(vals)} numbers, expected {3 * n_atoms}")
        xyz.append(np.array(vals).reshape(n_atoms, 3))
        if has_box:
            b = body[k * stride + per].split()
            if len(b) != 3:
                raise DecodeError("mdcrd: box line does not hold 3 numbers")
            boxes.append([float(v) for v in b])
    ang = None if not has_box else np.full((len(xyz), 3), 90.0)
    return _result(np.array(xyz), None, np.array(boxes) if has_box else None, ang, extra={"title": title})


# ---------------------------------------------------------------------------------------------
# AMBER restart / inpcrd (ambermd.org/FileFormats.php#restart): title; FORMAT(I5,5E15.7) NATOM, TIME (I6 when
# NATOM > 99999); coordinates FORMAT(6F12.7) Angstrom; [velocities 6F12.7]; [box FORMAT(6F12.7): a b c alpha beta gamma].
# Presence of box / velocities comes from the topology / run flags, i.e. the caller.
# ---------------------------------------------------------------------------------------------
def decode_rst7(path, has_box, has_velocities=False):
    lines = _read_text(path).split("\n")
    if lines and lines[-1] == "":
        lines.pop()
    if len(lines) < 2:
        raise DecodeError("rst7: fewer than two lines")
    head = lines[1]
    try:
        natom = int(head[:5])
        rest = head[5:]
        time = float(rest[:15]) if rest.strip() else None
    except ValueError:
        raise DecodeError(f"rst7: bad NATOM/TIME line {head!r}")
    per = -(-natom // 2)
    expected = 2 + per * (2 if has_velocities else 1) + (1 if has_box else 0)
    if len(lines) != expected:
        raise DecodeError(f"rst7: {len(lines)} lines, expected {expected} for {natom} atoms (box={has_box})")
    vals = []
    for ln in lines[2:2 + per]:
        vals += _fixed(ln, 12, "rst7")
    if len(vals) != 3 * natom:
        raise DecodeError(f"rst7: {len(vals)} coordinates for {natom} atoms")
    lengths = angles = None
    if has_box:
        b = _fixed(lines[-1], 12, "rst7 box")
        if len(b) != 6:
            raise DecodeError("rst7: box line does not hold 6 numbers")
        lengths, angles = np.array([b[:3]]), np.array([b[3:]])
    return _result(np.array(vals).reshape(1, natom, 3), None if time is None else [time], lengths, angles, extra={"title": lines[0]})


# ---------------------------------------------------------------------------------------------
# XYZ (openbabel.org/wiki/XYZ_(format)): per frame: atom count line, comment line, then `symbol x y z`
# free format, Angstrom.  No cell, no time.
# ---------------------------------------------------------------------------------------------
def decode_xyz(path):
    lines = _read_text(path).split("\n")
    if lines and lines[-1] == "":
        lines.pop()
    i, frames, comments, counts = 0, [], [], []
    while i < len(lines):
        try:
            n = int(lines[i].split()[0])
        except (ValueError, IndexError):
            raise DecodeError(f"xyz: line {i + 1} is not an atom count: {lines[i]!r}")
        if i + 2 + n > len(lines):
            raise DecodeError("xyz: truncated frame")
        comments.append(lines[i + 1])
        fr = []
        for ln in lines[i + 2:i + 2 + n]:
            p = ln.split()
            if len(p) < 4:
                raise DecodeError(f"xyz: atom line with fewer than 4 fields: {ln!r}")
            fr.append([float(p[1]), float(p[2]), float(p[3])])
        frames.append(np.array(fr).reshape(n, 3))
        counts.append(n)
        i += 2 + n
    if not frames:
        raise DecodeError("xyz: no frames")
    if len(set(counts)) != 1:
        return {"n_frames": len(frames), "n_atoms": None, "xyz": None, "ragged_counts": counts, "time": None,
                "cell_lengths": None, "cell_angles": None, "box_vectors": None, "units": {}, "extra": {"comments": comments}}
    return _result(np.array(frames), extra={"comments": comments})


# ---------------------------------------------------------------------------------------------
# LAMMPS text dump (docs.lammps.org/dump.html, "dump custom" + Howto_triclinic): ITEM: TIMESTEP / ITEM: NUMBER OF ATOMS /
# ITEM: BOX BOUNDS [xy xz yz] pp pp pp : `xlo_bound xhi_bound [xy]` ... ; for triclinic boxes
#   xlo = xlo_bound - min(0,xy,xz,xy+xz), xhi = xhi_bound - max(0,xy,xz,xy+xz), ylo = ylo_bound - min(0,yz), yhi = yhi_bound - max(0,yz)
# lattice vectors a=(lx,0,0) b=(xy,ly,0) c=(xz,yz,lz).  ITEM: ATOMS <columns>; atoms may come in any order (column id).
# `units real`: Angstrom.
# ---------------------------------------------------------------------------------------------
def decode_lammpstrj(path):
    lines = _read_text(path).split("\n")
    if lines and lines[-1] == "":
        lines.pop()
    i = 0
    xyz, lengths, angles, steps, origins = [], [], [], [], []
    while i < len(lines):
        if lines[i].strip() != "ITEM: TIMESTEP":
            raise DecodeError(f"lammpstrj: expected 'ITEM: TIMESTEP' at line {i + 1}, got {lines[i]!r}")
        steps.append(int(lines[i + 1]))
        if lines[i + 2].strip() != "ITEM: NUMBER OF ATOMS":
            raise DecodeError("lammpstrj: expected 'ITEM: NUMBER OF ATOMS'")
        n = int(lines[i + 3])
        hdr = lines[i + 4].split()
        if hdr[:3] != ["ITEM:", "BOX", "BOUNDS"]:
            raise DecodeError("lammpstrj: expected 'ITEM: BOX BOUNDS'")
        tri = hdr[3:6] == ["xy", "xz", "yz"]
        rows = [[float(v) for v in lines[i + 5 + k].split()] for k in range(3)]
        if any(len(r) != (3 if tri else 2) for r in rows):
            raise DecodeError("lammpstrj: box bound rows have the wrong number of columns")
        if tri:
            xy, xz, yz = rows[0][2], rows[1][2], rows[2][2]
            xlo = rows[0][0] - min(0.0, xy, xz, xy + xz)
            xhi = rows[0][1] - max(0.0, xy, xz, xy + xz)
            ylo = rows[1][0] - min(0.0, yz)
            yhi = rows[1][1] - max(0.0, yz)
        else:
            xy = xz = yz = 0.0
            xlo, xhi, ylo, yhi = rows[0][0], rows[0][1], rows[1][0], rows[1][1]
        zlo, zhi = rows[2][0], rows[2][1]
        vec = np.array([[xhi - xlo, 0, 0], [xy, yhi - ylo, 0], [xz, yz, zhi - zlo]])
        l_, a_ = lengths_angles_from_box_vectors(vec)
        cols = lines[i + 8].split()
        if cols[:2] != ["ITEM:", "ATOMS"]:
            raise DecodeError("lammpstrj: expected 'ITEM: ATOMS'")
        cols = cols[2:]
        for trio in (("x", "y", "z"), ("xu", "yu", "zu")):
            if all(c in cols for c in trio):
                break
        else:
            raise DecodeError(f"lammpstrj: no unscaled coordinate columns in {cols}")
        idc = cols.index("id") if "id" in cols else None
        fr = np.full((n, 3), np.nan)
        for k in range(n):
            p = lines[i + 9 + k].split()
            j = int(p[idc]) - 1 if idc is not None else k
            fr[j] = [float(p[cols.index(c)]) for c in trio]
        if np.isnan(fr).any():
            raise DecodeError("lammpstrj: atom ids do not cover 1..N")
        xyz.append(fr)
        lengths.append(l_)
        angles.append(a_)
        origins.append([xlo, ylo, zlo])
        i += 9 + n
    if not xyz:
        raise DecodeError("lammpstrj: no frames")
    return _result(np.array(xyz), None, np.array(lengths), np.array(angles), extra={"timestep": steps, "origin": origins})


# ---------------------------------------------------------------------------------------------
# GRO (manual.gromacs.org "gro" file format): title (optional time in ps after 't='), atom count, per atom
# "%5d%-5s%5s%5d" then positions; with n decimal places the field width is n+5 (the reader takes the distance
# between two decimal points as the field width); last line box: v1(x) v2(y) v3(z) [v1(y) v1(z) v2(x) v2(z) v3(x) v3(y)].  nm.
# ---------------------------------------------------------------------------------------------
def decode_gro(path):
    lines = _read_text(path).split("\n")
    if lines and lines[-1] == "":
        lines.pop()
    i = 0
    xyz, time, box, titles = [], [], [], []
    while i < len(lines):
        title = lines[i]
        n = int(lines[i + 1])
        t = None
        if "t=" in title:
            tok = title.rsplit("t=", 1)[1].split()
            try:
                t = float(tok[0])
            except (ValueError, IndexError):
                raise DecodeError(f"gro: cannot parse the time after 't=' in {title!r}")
        fr = []
        for ln in lines[i + 2:i + 2 + n]:
            p1 = ln.find(".", 20)
            p2 = ln.find(".", p1 + 1)
            if p1 < 0 or p2 < 0:
                raise DecodeError(f"gro: no two decimal points in atom line {ln!r}")
            w = p2 - p1
            try:
                fr.append([float(ln[20 + k * w:20 + (k + 1) * w]) for k in range(3)])
            except ValueError:
                raise DecodeError(f"gro: malformed position fields (width {w}) in {ln!r}")
            try:
                int(ln[0:5]), int(ln[15:20])
            except ValueError:
                raise DecodeError(f"gro: residue/atom number columns malformed in {ln!r}")
        b = [float(v) for v in lines[i + 2 + n].split()]
        if len(b) not in (3, 9):
            raise DecodeError("gro: box line must hold 3 or 9 numbers")
        b += [0.0] * (9 - len(b))
        box.append([[b[0], b[3], b[4]], [b[5], b[1], b[6]], [b[7], b[8], b[2]]])
        xyz.append(np.array(fr).reshape(n, 3))
        time.append(t)
        titles.append(title)
        i += 3 + n
    if not xyz:
        raise DecodeError("gro: no frames")
    if len({f.shape for f in xyz}) != 1:
        raise DecodeError("gro: frames with different atom counts")
    tm = None if any(t is None for t in time) else time
    return _result(np.array(xyz), tm, box_vectors=np.array(box), extra={"titles": titles, "time_per_frame": time})


# ---------------------------------------------------------------------------------------------
# PDB v3.3 (wwpdb.org/documentation/file-format): CRYST1 a 7-15 b 16-24 c 25-33 alpha 34-40 beta 41-47 gamma 48-54;
# ATOM/HETATM serial 7-11 name 13-16 resName 18-20 chainID 22 resSeq 23-26 x 31-38 y 39-46 z 47-54 occupancy 55-60
# tempFactor 61-66 element 77-78; MODEL serial 11-14 / ENDMDL delimit models; without MODEL records the file is one model.
# Angstrom; one CRYST1 per entry; no time.
# ---------------------------------------------------------------------------------------------
def decode_pdb(path):
    lines = _read_text(path).split("\n")
    models, cur, in_model = [], None, False
    cryst, bf, n_ter, model_serials, loose = [], [], 0, [], []
    for ln in lines:
        rec = ln[:6]
        if rec == "CRYST1":
            cryst.append([float(ln[6:15]), float(ln[15:24]), float(ln[24:33]), float(ln[33:40]), float(ln[40:47]), float(ln[47:54])])
        elif rec == "MODEL ":
            cur, in_model = [], True
            model_serials.append(int(ln[10:14]))
        elif rec == "ENDMDL":
            models.append(cur)
            cur, in_model = None, False
        elif rec in ("ATOM  ", "HETATM"):
            if len(ln.rstrip("\n")) != 80:
                raise DecodeError(f"pdb: ATOM record is {len(ln)} columns wide: {ln!r}")
            try:
                a = (float(ln[30:38]), float(ln[38:46]), float(ln[46:54]), float(ln[54:60]), float(ln[60:66]))
                int(ln[6:11]), int(ln[22:26])
            except ValueError:
                raise DecodeError(f"pdb: malformed fixed columns in {ln!r}")
            (cur if in_model else loose).append(a)
        elif rec[:3] == "TER":
            n_ter += 1
    if loose:
        if models:
            raise DecodeError("pdb: ATOM records both inside and outside MODEL/ENDMDL")
        models = [loose]
    if not models:
        raise DecodeError("pdb: no ATOM records")
    if len({len(m) for m in models}) != 1:
        raise DecodeError("pdb: models with different atom counts")
    arr = np.array(models, dtype=np.float64)
    lengths = angles = None
    if cryst:
        lengths = np.array([cryst[0][:3]])
        angles = np.array([cryst[0][3:]])
    return _result(arr[:, :, :3], None, lengths, angles,
                   extra={"bfactors": arr[:, :, 4], "occupancy": arr[:, :, 3], "n_cryst1": len(cryst), "n_ter": n_ter,
                          "model_serials": model_serials, "has_model_records": bool(model_serials)})


def decode(fmt, path, **kw):
    """dispatch on the format family name used by the bounded checks"""
    if fmt == "dcd":
        return decode_dcd(path)
    if fmt == "trr":
        return decode_trr(path)
    if fmt == "xtc":
        return decode_xtc_raw(path)
    if fmt == "nc":
        return decode_netcdf(path)
    if fmt == "ncrst":
        return decode_ncrst(path)
    if fmt == "h5":
        return decode_hdf5(path)
    if fmt == "mdcrd":
        return decode_mdcrd(path, kw["n_atoms"], kw["has_box"])
    if fmt == "rst7":
        return decode_rst7(path, kw["has_box"])
    if fmt == "xyz":
        return decode_xyz(path)
    if fmt == "lammpstrj":
        return decode_lammpstrj(path)
    if fmt == "gro":
        return decode_gro(path)
    if fmt == "pdb":
        return decode_pdb(path)
    raise NotImplementedError(fmt)


def numbered_files(path, n_frames):
    """AMBER restart output of a multi-frame trajectory: `name.N`, N zero padded to the width of n_frames (documented
    in Trajectory.save_amberrst7 / save_netcdfrst); one frame: `name` itself."""
    if n_frames == 1:
        return [path]
    w = len(str(n_frames))
    return ["%s.%0*d" % (path, w, i + 1) for i in range(n_frames)]


def sha256_tree(path):
    """sha256 of a file, or {relative name: sha256} of every file below a directory"""
    import hashlib

    if os.path.isdir(path):
        out = {}
        for root, dirs, files in os.walk(path):
            dirs.sort()
            for f in sorted(files):
                p = os.path.join(root, f)
                with open(p, "rb") as fh:
                    out[os.path.relpath(p, path)] = hashlib.sha256(fh.read()).hexdigest()
            for dd in dirs:
                out[os.path.relpath(os.path.join(root, dd), path) + "/"] = "dir"
        return out
    with open(path, "rb") as fh:
        return hashlib.sha256(fh.read()).hexdigest()
