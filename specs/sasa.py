"""Reference specification for C13: Shrake-Rupley solvent accessible surface area (float64).

Written from the documentation of md.shrake_rupley and the published definitions, not from sasa.cpp:

* each atom i carries the expanded sphere of radius R_i = r_vdw(element_i) + probe_radius around x_i;
* the sphere is sampled with the *golden section spiral* point set of n points (Saff & Kuijlaars-style
  spiral with golden-angle increments, the construction the docstring cites):
        y_k   = (2k + 1)/n - 1                      k = 0..n-1      (equal-area latitude bands)
        rho_k = sqrt(1 - y_k^2)
        phi_k = k * pi * (3 - sqrt(5))              (golden angle)
        s_k   = (rho_k cos phi_k, y_k, rho_k sin phi_k)
* a sample point p = x_i + R_i s_k is accessible iff it is inside no other atom's expanded sphere
  (|p - x_j| >= R_j for all j != i);
* area_i = 4 pi R_i^2 * (#accessible points) / n.

Because the library evaluates the spiral in float32 (phi_k up to ~2.4 n rad carries an absolute error of
phi*2^-23), a point's position is only known to  R_i * (2.4 n 2^-23 + 1e-5) + 1e-6 nm; `counts()` therefore
returns an interval [lo, hi]: `lo` counts the points that are accessible by more than `margin`, `hi` adds the
undecidable ones (within `margin` of some neighbour's surface).  The property excludes points within 1e-5 nm
of a neighbour surface from exact comparison; margin = 1e-5 + that float32 point-set uncertainty.

vdW radii (Bondi 1964, J. Phys. Chem. 68, 441), nm -- only the elements the check uses.
"""
import numpy as np

BONDI = {"H": 0.120, "C": 0.170, "N": 0.155, "O": 0.152, "F": 0.147, "P": 0.180, "S": 0.180}


def golden_spiral(n):
    k = np.arange(n, dtype=np.float64)
    y = (2.0 * k + 1.0) / n - 1.0
    rho = np.sqrt(1.0 - y * y)
    phi = k * np.pi * (3.0 - np.sqrt(5.0))
    return np.stack([rho * np.cos(phi), y, rho * np.sin(phi)], axis=1)


def point_margin(R, n):
    return 1e-5 + R * (2.4 * n * 2.0 ** -23 + 1e-5) + 1e-6


def counts(xyz, radii, n_points, select=None):
    """xyz (N,3), radii (N,) expanded radii.  Returns (lo, hi) integer arrays of accessible-point counts."""
    xyz = np.asarray(xyz, dtype=np.float64)
    radii = np.asarray(radii, dtype=np.float64)
    N = xyz.shape[0]
    S = golden_spiral(n_points)
    lo = np.zeros(N, dtype=int)
    hi = np.zeros(N, dtype=int)
    for i in (range(N) if select is None else select):
        P = xyz[i] + radii[i] * S
        others = np.array([j for j in range(N) if j != i], dtype=int)
        if others.size == 0:
            lo[i] = hi[i] = n_points
            continue
        d = np.sqrt(((P[:, None, :] - xyz[others][None, :, :]) ** 2).sum(-1)) - radii[others][None, :]
        smin = d.min(axis=1)
        m = point_margin(radii[i], n_points)
        lo[i] = int(np.sum(smin > m))
        hi[i] = int(np.sum(smin >= -m))
    return lo, hi


def areas(xyz, radii, n_points, select=None):
    """(area_lo, area_hi) per atom, nm^2"""
    lo, hi = counts(xyz, radii, n_points, select)
    radii = np.asarray(radii, dtype=np.float64)
    unit = 4.0 * np.pi * radii ** 2 / n_points
    return lo * unit, hi * unit


def two_sphere_exposed(r1, r2, d):
    """exact exposed area of sphere 1 (radius r1) when sphere 2 (radius r2) sits at centre distance d"""
    full = 4.0 * np.pi * r1 * r1
    if d >= r1 + r2:
        return full
    if d + r1 <= r2:
        return 0.0  # sphere 1 entirely inside sphere 2
    if d + r2 <= r1:
        return full  # sphere 2 entirely inside sphere 1: none of sphere 1's surface is covered
    x = (d * d + r1 * r1 - r2 * r2) / (2.0 * d)  # distance from centre 1 to the intersection plane
    return full - 2.0 * np.pi * r1 * (r1 - x)  # minus the spherical cap of height r1 - x
