"""Reference evaluator of the mdtraj atom-selection language.

Written from /repo/docs/atom_selection.rst (keyword table, literals, operators, implicit equality,
range queries) -- NOT from mdtraj/core/selection.py.  Pure Python, no mdtraj import: the fixture is
a table of atom records carrying every documented field, so the oracle does not go through
mdtraj's Atom/Residue properties either.

Documented language, as implemented here
----------------------------------------
keywords (and synonyms)      all|everything, none|nothing, backbone|is_backbone, sidechain|is_sidechain,
                             protein|is_protein, water|is_water|waters           (bool)
                             name, type|element|symbol, resname|resn, rescode|code|resc   (str)
                             index, n_bonds, residue|resSeq, resid|resi, chainid (int),  mass (float)
                             segment_id|segname (str) -- not in the rst table; meaning from the docstring of
                             Atom.segment_id ("segment_id of the residue to which this atom belongs")
literals                     integers, floats, 'single quoted', "double quoted", bare words
comparison                   <  <=  ==  !=  >=  >   and  lt le eq ne ge gt ;  =~ (Python regular expression)
implicit equality / lists    `resid 35` == `resid == 35`;  `name CA CB` = membership
range                        `<kw> <low> to <high>`  ==  low <= kw <= high
connectives                  and|&&  or||| not|!   "standard boolean operations": binding strength
                             not > comparison > and > or ; parentheses group

What is deliberately left *unspecified* (raise Unspecified; the check never generates such strings):
  * `not`/`!` applied directly to an unparenthesised comparison (`not resid == 1`): Python and C
    conventions disagree about the grouping and the docs do not say;
  * ordering comparisons on strings, string/number mixes, equality on `mass`, thresholds within
    MASS_MARGIN of an element mass, bare keywords that are not bool (`name`), chained comparisons,
    comparisons between two literals or involving bool keywords;
  * the anchoring of `=~` (match / fullmatch / search): only patterns on which all three agree over
    the whole fixture are specified.
"""
from __future__ import annotations

import re

# --------------------------------------------------------------------------------------------------
# keyword table (docs/atom_selection.rst, section "Reference")
# --------------------------------------------------------------------------------------------------
KEYWORDS = {
    # canonical: (synonyms, type, record field)
    "all": (("everything",), "bool", None),
    "none": (("nothing",), "bool", None),
    "backbone": (("is_backbone",), "bool", "backbone"),
    "sidechain": (("is_sidechain",), "bool", "sidechain"),
    "protein": (("is_protein",), "bool", "protein"),
    "water": (("is_water", "waters"), "bool", "water"),
    "name": ((), "str", "name"),
    "index": ((), "int", "index"),
    "n_bonds": ((), "int", "n_bonds"),
    "type": (("element", "symbol"), "str", "symbol"),
    "mass": ((), "float", "mass"),
    "residue": (("resSeq",), "int", "resSeq"),
    "resid": (("resi",), "int", "resid"),
    "resname": (("resn",), "str", "resname"),
    "rescode": (("code", "resc"), "str", "rescode"),
    "chainid": ((), "int", "chainid"),
    "segment_id": (("segname",), "str", "segment_id"),
}
ALIAS = {}
for _canon, (_syn, _ty, _f) in KEYWORDS.items():
    for _a in (_canon,) + tuple(_syn):
        ALIAS[_a] = _canon

CMP = {"<": "lt", "lt": "lt", "<=": "le", "le": "le", "==": "eq", "eq": "eq",
       "!=": "ne", "ne": "ne", ">=": "ge", "ge": "ge", ">": "gt", "gt": "gt"}
AND = ("and", "&&")
OR = ("or", "||")
NOT = ("not", "!")
MASS_MARGIN = 0.05


class Malformed(ValueError):
    """not an expression of the documented language"""


class Unspecified(Exception):
    """syntactically plausible, but the documentation does not fix its meaning"""


# --------------------------------------------------------------------------------------------------
# fixture: protein, water, ions, ligand; three chains, two segments; repeated names and residue numbers
# --------------------------------------------------------------------------------------------------
MASSES = {"H": 1.008, "C": 12.011, "N": 14.007, "O": 15.999, "S": 32.06, "Na": 22.990, "Cl": 35.45, "Ca": 40.078}
CODES = {"ALA": "A", "GLY": "G", "SER": "S", "PRO": "P", "LYS": "K", "CYS": "C", "GLU": "E"}
BACKBONE = ("N", "CA", "C", "O")

# (resname, resSeq, chain, segment, [(atom name, element symbol)], [intra-residue bonds by atom name])
_BB = [("N", "N"), ("CA", "C"), ("C", "C"), ("O", "O")]
_BBB = [("N", "CA"), ("CA", "C"), ("C", "O")]
RESIDUES = [
    ("ALA", 1, 0, "SA", _BB + [("CB", "C")], _BBB + [("CA", "CB")]),
    ("GLY", 2, 0, "SA", _BB, _BBB),
    ("SER", 3, 0, "SA", _BB + [("CB", "C"), ("OG", "O")], _BBB + [("CA", "CB"), ("CB", "OG")]),
    ("PRO", 4, 0, "SA", _BB + [("CB", "C"), ("CG", "C"), ("CD", "C")],
     _BBB + [("CA", "CB"), ("CB", "CG"), ("CG", "CD"), ("CD", "N")]),
    ("LYS", 5, 0, "SA", _BB + [("CB", "C"), ("CG", "C"), ("CD", "C"), ("CE", "C"), ("NZ", "N")],
     _BBB + [("CA", "CB"), ("CB", "CG"), ("CG", "CD"), ("CD", "CE"), ("CE", "NZ")]),
    ("ALA", 1, 1, "SA", _BB + [("CB", "C")], _BBB + [("CA", "CB")]),
    ("CYS", 2, 1, "SB", _BB + [("CB", "C"), ("SG", "S")], _BBB + [("CA", "CB"), ("CB", "SG")]),
    ("GLU", 10, 1, "SB", _BB + [("CB", "C"), ("CG", "C"), ("CD", "C"), ("OE1", "O"), ("OE2", "O")],
     _BBB + [("CA", "CB"), ("CB", "CG"), ("CG", "CD"), ("CD", "OE1"), ("CD", "OE2")]),
    ("LIG", 11, 1, "SB", [("C1", "C"), ("C2", "C"), ("C3", "C"), ("N1", "N"), ("O1", "O"), ("O5'", "O"), ("H1", "H")],
     [("C1", "C2"), ("C2", "C3"), ("C2", "N1"), ("C2", "O1"), ("C3", "O5'"), ("N1", "H1")]),
    ("HOH", 101, 2, "SB", [("O", "O"), ("H1", "H"), ("H2", "H")], [("O", "H1"), ("O", "H2")]),
    ("HOH", 102, 2, "SB", [("O", "O"), ("H1", "H"), ("H2", "H")], [("O", "H1"), ("O", "H2")]),
    ("NA", 103, 2, "SB", [("NA", "Na")], []),
    ("CL", 104, 2, "SB", [("CL", "Cl")], []),
    ("CA", 105, 2, "SB", [("CA", "Ca")], []),          # a calcium ion: an atom called CA outside any protein residue
]
# peptide bonds between consecutive protein residues of the same chain (residue indices)
PEPTIDE = [(0, 1), (1, 2), (2, 3), (3, 4), (5, 6), (6, 7)]


def fixture():
    """-> (records, bonds).  records[i] has every documented field of atom i; bonds = [(i, j)]."""
    recs, bonds, first = [], [], []
    for ri, (rn, rs, ch, seg, atoms, rb) in enumerate(RESIDUES):
        first.append(len(recs))
        idx = {}
        prot = rn in CODES
        for an, sym in atoms:
            idx[an] = len(recs)
            recs.append({
                "index": len(recs), "name": an, "symbol": sym, "mass": MASSES[sym], "resname": rn, "resSeq": rs,
                "resid": ri, "rescode": CODES.get(rn), "chainid": ch, "segment_id": seg,
                "protein": prot, "water": rn == "HOH",
                "backbone": prot and an in BACKBONE, "sidechain": prot and an not in BACKBONE,
                "n_bonds": 0,
            })
        for a, b in rb:
            bonds.append((idx[a], idx[b]))
    for a, b in PEPTIDE:
        ia = [r["index"] for r in recs if r["resid"] == a and r["name"] == "C"][0]
        ib = [r["index"] for r in recs if r["resid"] == b and r["name"] == "N"][0]
        bonds.append((ia, ib))
    for i, j in bonds:
        recs[i]["n_bonds"] += 1
        recs[j]["n_bonds"] += 1
    return recs, bonds


# --------------------------------------------------------------------------------------------------
# tokens
# --------------------------------------------------------------------------------------------------
_TOKEN = re.compile(r"""\s*(?:
      (?P<sq>'(?:[^'\\]|\\.)*')
    | (?P<dq>"(?:[^"\\]|\\.)*")
    | (?P<num>(?:[0-9]+\.?[0-9]*|\.[0-9]+)(?![A-Za-z_0-9.]))
    | (?P<word>[A-Za-z_][A-Za-z_0-9]*)
    | (?P<sym>&&|\|\||!=|<=|>=|==|=~|<|>|!|\(|\))
    )""", re.X)


def tokenize(s):
    out, pos = [], 0
    n = len(s)
    while True:
        while pos < n and s[pos].isspace():
            pos += 1
        if pos >= n:
            return out
        m = _TOKEN.match(s, pos)
        if not m or m.end() == pos:
            raise Malformed(f"cannot tokenise at {pos}: {s[pos:pos + 10]!r}")
        k = m.lastgroup
        txt = m.group(k)
        if k in ("sq", "dq"):
            body = txt[1:-1]
            if "\\" in body:
                raise Unspecified("escape sequences in quoted strings")
            out.append(("str", body))
        elif k == "num":
            out.append(("num", float(txt) if "." in txt else int(txt)))
        elif k == "word":
            out.append(("word", txt))
        else:
            out.append(("sym", txt))
        pos = m.end()


# --------------------------------------------------------------------------------------------------
# parser: or < and < comparison / =~ < not < primary
# tree nodes: ("or", [..]) ("and", [..]) ("not", x) ("cmp", op, kwcanon, value, flipped) ("regex", kw, pat)
#             ("range", kw, lo, hi) ("in", kw, [values]) ("kw", canon) ("lit", value)
# --------------------------------------------------------------------------------------------------
class _P:
    def __init__(self, toks):
        self.t = toks
        self.i = 0

    def peek(self):
        return self.t[self.i] if self.i < len(self.t) else (None, None)

    def next(self):
        tok = self.peek()
        self.i += 1
        return tok

    def is_op(self, names):
        k, v = self.peek()
        return k in ("word", "sym") and v in names

    def parse(self):
        if not self.t:
            raise Malformed("empty selection")
        e = self.or_()
        if self.i != len(self.t):
            raise Malformed(f"unexpected token {self.peek()[1]!r}")
        return e

    def or_(self):
        xs = [self.and_()]
        while self.is_op(OR):
            self.next()
            xs.append(self.and_())
        return xs[0] if len(xs) == 1 else ("or", xs)

    def and_(self):
        xs = [self.cmp_()]
        while self.is_op(AND):
            self.next()
            xs.append(self.cmp_())
        return xs[0] if len(xs) == 1 else ("and", xs)

    def cmp_(self):
        left = self.unary()
        k, v = self.peek()
        if k in ("word", "sym") and (v in CMP or v == "=~"):
            if left[0] == "not":
                raise Unspecified("not applied to an unparenthesised comparison")
            self.next()
            right = self.unary()
            if right[0] == "not":
                raise Unspecified("comparison with a negated operand")
            k2, v2 = self.peek()
            if k2 in ("word", "sym") and (v2 in CMP or v2 == "=~"):
                raise Unspecified("chained comparison")
            if v == "=~":
                if left[0] == "kw" and right[0] == "lit":
                    return ("regex", left[1], right)
                if left[0] == "lit" and right[0] == "lit":
                    raise Malformed("regular-expression match on a literal")
                raise Unspecified("=~ operands")
            if left[0] == "lit" and right[0] == "lit":
                raise Malformed("comparison of two literals")
            if left[0] == "kw" and right[0] == "lit":
                return ("cmp", CMP[v], left[1], right, False)
            if left[0] == "lit" and right[0] == "kw":
                return ("cmp", CMP[v], right[1], left, True)
            raise Unspecified("comparison operands")
        return left

    def unary(self):
        if self.is_op(NOT):
            self.next()
            return ("not", self.unary())
        return self.primary()

    def literal(self):
        k, v = self.peek()
        if k == "num" or k == "str":
            self.next()
            return ("lit", v, k)
        if k == "word" and v not in CMP and v not in AND + OR + NOT and v != "to":
            if v in ALIAS:
                raise Unspecified("keyword used where a literal is expected")
            self.next()
            return ("lit", v, "bare")
        return None

    def primary(self):
        k, v = self.peek()
        if k is None:
            raise Malformed("unexpected end of selection")
        if k == "sym" and v == "(":
            self.next()
            e = self.or_()
            if self.peek() != ("sym", ")"):
                raise Malformed("unbalanced parenthesis")
            self.next()
            return ("paren", e)
        if k == "word" and v in ALIAS:
            self.next()
            kw = ALIAS[v]
            first = self.literal()
            if first is None:
                if self.peek() == ("word", "to"):
                    raise Malformed("range without lower bound")
                return ("kw", kw)
            if self.peek() == ("word", "to"):
                self.next()
                hi = self.literal()
                if hi is None:
                    raise Malformed("range without upper bound")
                if self.literal() is not None:
                    raise Malformed("tokens after range")
                return ("range", kw, first, hi)
            vals = [first]
            while True:
                nxt = self.literal()
                if nxt is None:
                    break
                vals.append(nxt)
            if self.peek() == ("word", "to"):
                raise Malformed("misplaced 'to'")
            return ("in", kw, vals)
        lit = self.literal()
        if lit is not None:
            if self.literal() is not None:
                raise Malformed("adjacent literals")
            return lit
        raise Malformed(f"unexpected token {v!r}")


def parse(s):
    return _P(tokenize(s)).parse()


# --------------------------------------------------------------------------------------------------
# typing + evaluation
# --------------------------------------------------------------------------------------------------
def _strip(e):
    while e[0] == "paren":
        e = e[1]
    return e


def _value(kw, lit, records, equality):
    """literal `lit` = ("lit", value, kind) typed against keyword kw"""
    ty = KEYWORDS[kw][1]
    _, v, kind = lit
    if ty == "bool":
        raise Unspecified("comparison with a bool keyword")
    if ty == "str":
        if kind == "num":
            raise Unspecified("string keyword compared with a number")
        return v
    if kind != "num":
        raise Unspecified("numeric keyword compared with a string")
    if ty == "float":
        if equality:
            raise Unspecified("equality on a float keyword")
        f = KEYWORDS[kw][2]
        if any(abs(r[f] - v) < MASS_MARGIN for r in records):
            raise Unspecified("threshold within MASS_MARGIN of an element mass")
    return v


def _cmp(op, a, b):
    if op == "eq":
        return a == b
    if op == "ne":
        return a != b
    if op == "lt":
        return a < b
    if op == "le":
        return a <= b
    if op == "ge":
        return a >= b
    return a > b


def _compile(e, records, regex_mode):
    """-> predicate(record) -> bool ; raises Malformed / Unspecified"""
    k = e[0]
    if k == "paren":
        return _compile(e[1], records, regex_mode)
    if k in ("or", "and"):
        subs = [_compile(x, records, regex_mode) for x in e[1]]
        return (lambda r: any(f(r) for f in subs)) if k == "or" else (lambda r: all(f(r) for f in subs))
    if k == "not":
        f = _compile(e[1], records, regex_mode)
        return lambda r: not f(r)
    if k == "kw":
        canon = e[1]
        ty = KEYWORDS[canon][1]
        if ty != "bool":
            raise Unspecified("bare non-bool keyword used as truth value")
        if canon == "all":
            return lambda r: True
        if canon == "none":
            return lambda r: False
        f = KEYWORDS[canon][2]
        return lambda r: bool(r[f])
    if k == "lit":
        raise Malformed("literal used as truth value")
    f = KEYWORDS[e[2] if k == "cmp" else e[1]][2]
    if k == "cmp":
        _, op, kw, lit, flipped = e
        ty = KEYWORDS[kw][1]
        if ty == "str" and op not in ("eq", "ne"):
            raise Unspecified("ordering comparison on strings")
        v = _value(kw, lit, records, op in ("eq", "ne"))
        if flipped:
            return lambda r: _cmp(op, v, r[f])
        return lambda r: _cmp(op, r[f], v)
    if k == "range":
        _, kw, lo, hi = e
        if KEYWORDS[kw][1] == "str":
            raise Unspecified("range over strings")
        a, b = _value(kw, lo, records, False), _value(kw, hi, records, False)
        return lambda r: a <= r[f] <= b
    if k == "in":
        _, kw, lits = e
        vals = [_value(kw, x, records, True) for x in lits]
        return lambda r: r[f] in vals
    if k == "regex":
        _, kw, lit = e
        if KEYWORDS[kw][1] != "str":
            raise Unspecified("regular expression on a non-string keyword")
        if lit[2] == "num":
            raise Unspecified("numeric pattern")
        try:
            pat = re.compile(lit[1])
        except re.error:
            raise Unspecified("invalid regular expression")
        if any(r[f] is None for r in records):
            raise Unspecified("regular expression on a field that is undefined for some atoms")
        fn = getattr(pat, regex_mode)
        return lambda r: fn(r[f]) is not None
    raise Malformed(f"unknown node {k}")


def _has_regex(e):
    if e[0] == "regex":
        return True
    if e[0] in ("or", "and"):
        return any(_has_regex(x) for x in e[1])
    if e[0] in ("not", "paren"):
        return _has_regex(e[1])
    return False


def evaluate(expr, records):
    """sorted list of indices of the records for which `expr` is true under the documented meaning.
    Raises Malformed (not in the language) or Unspecified (meaning not fixed by the docs)."""
    tree = parse(expr)
    top = _strip(tree)
    if top[0] == "lit":
        raise Malformed("a single literal is not a selection")
    res = None
    modes = ("match", "fullmatch", "search") if _has_regex(tree) else ("match",)
    for mode in modes:
        pred = _compile(tree, records, mode)
        cur = [r["index"] for r in records if pred(r)]
        if res is not None and cur != res:
            raise Unspecified("=~ anchoring (match/fullmatch/search) changes the result")
        res = cur
    return res
