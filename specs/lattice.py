"""Executable float64 specifications for periodic geometry (properties C05, C07, C09, C10, C11).

Everything here is written from the *definitions*, never from mdtraj's code:

* a periodic cell is three row vectors  box = [a, b, c]  (any orientation, positive volume);
  the lattice is  { n @ box : n in Z^3 };
* the periodic images of a separation vector d are  d + n @ box;  the minimum-image displacement is
  an image of smallest Euclidean length, the minimum-image distance is that length;
* the perpendicular width of the cell along axis i is the distance between the two faces spanned by
  the other two cell vectors:  w_i = V / |v_j x v_k|;
* angle at the middle atom = acos( u.v / |u||v| ) in [0, pi];
* dihedral (IUPAC/IUB 1970 sign: positive = clockwise rotation of the front bond onto the rear bond
  looking along the central bond) = atan2( |b2| b1.(b2 x b3), (b1 x b2).(b2 x b3) );
* v is a lattice vector iff  v = n @ box  with n integral (solve, round, look at the residual).

All inputs are cast to float64; callers pass the float32 numbers mdtraj sees (coordinates and
`Trajectory.unitcell_vectors`) so that spec and implementation start from identical data.
"""
from __future__ import annotations

import itertools
import math

import numpy as np

# --------------------------------------------------------------------------------------------
# float32 helpers (tolerances are derived from these and stated by the callers)
# --------------------------------------------------------------------------------------------


def ulp32(x):
    """spacing of float32 numbers at magnitude |x| (>= smallest normal spacing)"""
    x = np.abs(np.asarray(x, dtype=np.float64))
    return np.spacing(np.maximum(x, 1e-30).astype(np.float32)).astype(np.float64)


def box_scale(box):
    """|box| := length of the longest cell edge (nm)"""
    box = np.asarray(box, dtype=np.float64)
    return float(np.sqrt((box ** 2).sum(-1)).max())


def dist_tol(box):
    """C05 float32 tolerance for periodic distances/displacements: 1e-5 * max(1, |box|).

    Derivation: the inputs of the enumerated space lie within +-5.5 cells, so a coordinate
    difference has components up to ~11|box| (more in skewed cells); one float32 rounding at that
    magnitude is <= 2^-24 * 11|box| ~ 0.7e-6|box|; the kernels perform ~8 roundings at that
    magnitude (difference, three products, three subtractions, image sum) -> <= ~6e-6|box|.
    """
    return 1e-5 * max(1.0, box_scale(box))


# --------------------------------------------------------------------------------------------
# cell geometry
# --------------------------------------------------------------------------------------------


def volume(box):
    box = np.asarray(box, dtype=np.float64)
    return float(abs(np.linalg.det(box)))


def widths(box):
    """perpendicular widths (w_a, w_b, w_c) of the cell as given"""
    box = np.asarray(box, dtype=np.float64)
    v = volume(box)
    out = []
    for i in range(3):
        j, k = (i + 1) % 3, (i + 2) % 3
        out.append(v / np.linalg.norm(np.cross(box[j], box[k])))
    return np.array(out)


def min_width(box):
    """smallest perpendicular width of the cell as given"""
    return float(widths(box).min())


def reduce_cell(box, max_iter=200):
    """A basis of the SAME lattice with pairwise-reduced vectors (|v_i.v_j| <= |v_j|^2/2 for all i != j).

    Only unimodular steps v_i -= round(v_i.v_j/|v_j|^2) v_j are applied, so the lattice is unchanged
    (checked by the caller-independent assertion below).  Orientation independent.
    """
    b = np.array(box, dtype=np.float64)
    for _ in range(max_iter):
        changed = False
        order = np.argsort(-(b ** 2).sum(1))  # try to shorten the longest first
        for i in order:
            for j in range(3):
                if i == j:
                    continue
                n = np.round(b[i] @ b[j] / (b[j] @ b[j]))
                if n != 0:
                    cand = b[i] - n * b[j]
                    if cand @ cand < b[i] @ b[i] * (1 - 1e-12):
                        b[i] = cand
                        changed = True
        if not changed:
            break
    m = np.asarray(box, dtype=np.float64) @ np.linalg.inv(b)
    assert np.allclose(m, np.round(m), atol=1e-6) and abs(abs(np.linalg.det(np.round(m))) - 1) < 1e-9
    return b


def required_K(box_reduced, d0):
    """rigorous image-search radius: an image v = (s+n)@box with |v| <= d0 has |s_i+n_i| * w_i <= |v|
    (w_i = perpendicular width along axis i), hence |n_i| <= |s_i| + d0/w_i with |s_i| <= 1/2."""
    w = widths(box_reduced)
    return int(np.floor(0.5 + d0 / w.min() + 1e-9))


def min_image(diff, box, K=3, want_second=False):
    """Brute-force minimum image of the separation vectors `diff` (n,3) in the cell `box` (3,3).

    Search: work in a pairwise-reduced basis of the same lattice, bring the fractional coordinates
    into [-1/2,1/2] (a lattice translation), then enumerate all images n in [-K,K]^3.  K is raised
    when the rigorous bound `required_K` (with d0 = length of the wrapped vector) asks for more, so
    the result IS the minimum over the whole lattice.

    Returns (disp (n,3), dist (n,)) and, if want_second, the length of the shortest image that is a
    *different lattice translate* (for tie detection).
    """
    diff = np.atleast_2d(np.asarray(diff, dtype=np.float64))
    B = reduce_cell(box)
    s = diff @ np.linalg.inv(B)
    s = s - np.round(s)
    base = s @ B
    d0 = np.sqrt((base ** 2).sum(1)).max() if len(base) else 0.0
    K = max(K, required_K(B, d0))
    rng = np.arange(-K, K + 1)
    shifts = np.array(list(itertools.product(rng, rng, rng)), dtype=np.float64) @ B  # (m,3)
    disp = np.empty_like(base)
    dist = np.empty(len(base))
    second = np.empty(len(base))
    for lo in range(0, len(base), 512):
        blk = base[lo:lo + 512, None, :] + shifts[None, :, :]
        d2 = (blk ** 2).sum(-1)
        idx = d2.argmin(1)
        ar = np.arange(len(idx))
        disp[lo:lo + 512] = blk[ar, idx]
        dist[lo:lo + 512] = np.sqrt(d2[ar, idx])
        if want_second:
            d2[ar, idx] = np.inf
            second[lo:lo + 512] = np.sqrt(d2.min(1))
    if want_second:
        return disp, dist, second
    return disp, dist


def image_length_gap(d, diff, box, K=6):
    """min over images n in [-K,K]^3 (around the wrapped vector, reduced basis) of | d - |diff + n@box| |:
    0 iff `d` is the length of one of those periodic images of `diff`"""
    B = reduce_cell(box)
    s = np.asarray(diff, dtype=np.float64) @ np.linalg.inv(B)
    base = (s - np.round(s)) @ B
    rng = np.arange(-K, K + 1)
    shifts = np.array(list(itertools.product(rng, rng, rng)), dtype=np.float64) @ B
    lens = np.sqrt(((base[None, :] + shifts) ** 2).sum(1))
    return float(np.abs(lens - d).min())


def lattice_coefficients(v, box):
    """(n, residual): nearest integer coefficients of v in the cell basis and |v - n@box|"""
    v = np.atleast_2d(np.asarray(v, dtype=np.float64))
    box = np.asarray(box, dtype=np.float64)
    n = np.round(v @ np.linalg.inv(box))
    res = np.sqrt(((v - n @ box) ** 2).sum(1))
    return n.astype(np.int64), res


def is_lattice_vector(v, box, tol):
    """v (n,3) are integer combinations of the cell vectors up to an absolute residual `tol` (nm).
    Tolerance is absolute on the residual |v - round(v box^-1) box|; the caller states it
    (C05/C11: 1e-5*max(1,|box|), float32 roundings of coordinates several cells out)."""
    return lattice_coefficients(v, box)[1] <= tol


def wrap_tie_margin(diff, box):
    """How far (in units of a cell edge fraction) the separation `diff` is from a point where the
    canonical "wrap into the centred cell" map is discontinuous, i.e. where a fractional coordinate
    in a triangular (successively reduced) basis is a half-integer, plus how far the cell itself is
    from a tie in its reduction.  Used ONLY to *exclude* cases from opt-vs-reference agreement outside
    the range in which the minimum image is defined; never to accuse.
    Requires the standard orientation a=(ax,0,0), b=(bx,by,0), c=(cx,cy,cz)."""
    diff = np.atleast_2d(np.asarray(diff, dtype=np.float64))
    a, b, c = (np.array(x, dtype=np.float64) for x in box)
    margins = []
    t = c[1] / b[1]
    margins.append(abs(abs(t - np.round(t)) - 0.5))
    c = c - b * np.round(t)
    t = c[0] / a[0]
    margins.append(abs(abs(t - np.round(t)) - 0.5))
    c = c - a * np.round(t)
    t = b[0] / a[0]
    margins.append(abs(abs(t - np.round(t)) - 0.5))
    b = b - a * np.round(t)
    cellm = min(margins)
    r = diff.copy()
    out = np.full(len(r), cellm)
    for vec, k in ((c, 2), (b, 1), (a, 0)):
        t = r[:, k] / vec[k]
        out = np.minimum(out, np.abs(np.abs(t - np.round(t)) - 0.5))
        r = r - np.round(t)[:, None] * vec[None, :]
    return out


# --------------------------------------------------------------------------------------------
# angles and dihedrals from (minimum-image) bond vectors
# --------------------------------------------------------------------------------------------


def angle_between(u, v):
    u = np.asarray(u, dtype=np.float64)
    v = np.asarray(v, dtype=np.float64)
    c = (u * v).sum(-1) / (np.sqrt((u * u).sum(-1)) * np.sqrt((v * v).sum(-1)))
    return np.arccos(np.clip(c, -1.0, 1.0))


def dihedral_from_bonds(b1, b2, b3):
    b1, b2, b3 = (np.asarray(x, dtype=np.float64) for x in (b1, b2, b3))
    c23 = np.cross(b2, b3)
    c12 = np.cross(b1, b2)
    p1 = (b1 * c23).sum(-1) * np.sqrt((b2 * b2).sum(-1))
    p2 = (c12 * c23).sum(-1)
    return np.arctan2(p1, p2)


def bond_vectors(xyz, pairs, box=None):
    """x[j]-x[i] for (i,j) in pairs; minimum image when box is given"""
    xyz = np.asarray(xyz, dtype=np.float64)
    pairs = np.asarray(pairs, dtype=int).reshape(-1, 2)
    d = xyz[pairs[:, 1]] - xyz[pairs[:, 0]]
    if box is None or len(d) == 0:
        return d
    return min_image(d, box)[0]


def angles(xyz, triplets, box=None):
    """angle at the middle atom of each triplet (radians); also returns (|u|,|v|,sin) for conditioning"""
    t = np.asarray(triplets, dtype=int).reshape(-1, 3)
    u = bond_vectors(xyz, t[:, [1, 0]], box)
    v = bond_vectors(xyz, t[:, [1, 2]], box)
    return angle_between(u, v), u, v


def dihedrals(xyz, quartets, box=None):
    q = np.asarray(quartets, dtype=int).reshape(-1, 4)
    b1 = bond_vectors(xyz, q[:, [0, 1]], box)
    b2 = bond_vectors(xyz, q[:, [1, 2]], box)
    b3 = bond_vectors(xyz, q[:, [2, 3]], box)
    return dihedral_from_bonds(b1, b2, b3), b1, b2, b3


def angle_tol(u, v, dx):
    """float32 tolerance (rad) for an angle built from bond vectors u, v that carry an absolute error
    dx each: direction error 2*dx/|u| + 2*dx/|v| (factor 2: safety), plus the conditioning of acos on a
    float32 cosine: the cosine (a dot product and two norms, ~8 roundings of 2^-24 each) has a relative
    error dc <= 1e-6; away from 0/pi  dtheta <= dc/sin(theta) (taken twice for safety), and at 0/pi the
    clipped cosine gives at most sqrt(2 dc) = 1.4e-3 (taken 1.5x)."""
    nu = np.sqrt((u * u).sum(-1))
    nv = np.sqrt((v * v).sum(-1))
    th = angle_between(u, v)
    dc = 1e-6
    cond = np.minimum(2 * dc / np.maximum(np.sin(th), 1e-12), 1.5 * np.sqrt(2 * dc))
    return 2 * dx / nu + 2 * dx / nv + cond + 2e-6


def dihedral_tol(b1, b2, b3, dx):
    """float32 tolerance (rad) for a dihedral: the two plane normals b1xb2 and b2xb3 turn by at most
    (direction error of the bonds) / sin(bond angle); direction error of a bond is 2*dx/|b|.
    A relative float32 evaluation error of ~1e-6 in the two arguments of atan2 adds 2e-6 / (sin1*sin2)."""
    n1, n2, n3 = (np.sqrt((x * x).sum(-1)) for x in (b1, b2, b3))
    s12 = np.sqrt((np.cross(b1, b2) ** 2).sum(-1)) / (n1 * n2)
    s23 = np.sqrt((np.cross(b2, b3) ** 2).sum(-1)) / (n2 * n3)
    s12 = np.maximum(s12, 1e-12)
    s23 = np.maximum(s23, 1e-12)
    e1, e2, e3 = 2 * dx / n1, 2 * dx / n2, 2 * dx / n3
    return (e1 + e2) / s12 + (e2 + e3) / s23 + 4e-6 / (s12 * s23) + 2e-6


def angdiff(a, b):
    """difference of two angles modulo 2 pi, in [0, pi]"""
    d = np.abs(np.asarray(a, dtype=np.float64) - np.asarray(b, dtype=np.float64)) % (2 * np.pi)
    return np.minimum(d, 2 * np.pi - d)


# --------------------------------------------------------------------------------------------
# RMSD (Kabsch, SVD with reflection correction) -- used by the C09/C11 invariance clauses
# --------------------------------------------------------------------------------------------


def kabsch_rmsd(x, y):
    x = np.asarray(x, dtype=np.float64)
    y = np.asarray(y, dtype=np.float64)
    x = x - x.mean(0)
    y = y - y.mean(0)
    h = x.T @ y
    u, s, vt = np.linalg.svd(h)
    if np.linalg.det(u) * np.linalg.det(vt) < 0:
        s[-1] = -s[-1]
    msd = ((x ** 2).sum() + (y ** 2).sum() - 2 * s.sum()) / len(x)
    return math.sqrt(max(msd, 0.0))


# --------------------------------------------------------------------------------------------
# rotations
# --------------------------------------------------------------------------------------------


def random_rotation(rng):
    """uniform proper rotation (unit quaternion)"""
    q = rng.normal(size=4)
    q /= np.linalg.norm(q)
    w, x, y, z = q
    r = np.array([
        [1 - 2 * (y * y + z * z), 2 * (x * y - z * w), 2 * (x * z + y * w)],
        [2 * (x * y + z * w), 1 - 2 * (x * x + z * z), 2 * (y * z - x * w)],
        [2 * (x * z - y * w), 2 * (y * z + x * w), 1 - 2 * (x * x + y * y)]])
    assert abs(np.linalg.det(r) - 1) < 1e-12
    return r


# --------------------------------------------------------------------------------------------
# cell generators: the families of the C05 quantifier, as (lengths, angles in degrees)
# --------------------------------------------------------------------------------------------

TRUNC_OCT = math.degrees(math.acos(-1.0 / 3.0))  # 109.4712...
FAMILIES = ["cubic", "ortho", "monoclinic", "hex120", "hex60", "truncoct-amber", "truncoct-gmx",
            "rhombdodec-sq", "rhombdodec-hex", "triclinic", "triclinic-unreduced", "varying", "mixed-ortho-tric"]
SKEWED = set(FAMILIES) - {"cubic", "ortho"}


def vectors_from_lengths_angles(lengths, angles_deg):
    """standard orientation a || x, b in the xy plane (textbook crystallographic conversion)"""
    a, b, c = (float(v) for v in lengths)
    al, be, ga = (math.radians(float(v)) for v in angles_deg)
    bx, by = b * math.cos(ga), b * math.sin(ga)
    cx = c * math.cos(be)
    cy = c * (math.cos(al) - math.cos(be) * math.cos(ga)) / math.sin(ga)
    cz2 = c * c - cx * cx - cy * cy
    if cz2 <= 0:
        return None
    return np.array([[a, 0, 0], [bx, by, 0], [cx, cy, math.sqrt(cz2)]])


def valid_cell(lengths, angles_deg, min_rel_width=0.25):
    """positive volume, axis ratio <= 6, angles in [45,135], not needle-thin: smallest perpendicular
    width >= min_rel_width * shortest edge (cells thinner than that lose all float32 significance)"""
    lengths = np.asarray(lengths, dtype=float)
    angles_deg = np.asarray(angles_deg, dtype=float)
    if lengths.min() <= 0 or lengths.max() / lengths.min() > 6.0 + 1e-9:
        return False
    if angles_deg.min() < 45 - 1e-9 or angles_deg.max() > 135 + 1e-9:
        return False
    box = vectors_from_lengths_angles(lengths, angles_deg)
    if box is None or volume(box) <= 0:
        return False
    return min_width(box) >= min_rel_width * lengths.min()


def _lengths(rng, lo=1.5, hi=9.0):
    """three edge lengths in [lo,hi] nm with ratio <= 6"""
    while True:
        l = rng.uniform(lo, hi, size=3)
        if l.max() / l.min() <= 6:
            return np.round(l, 3)


def _la_from_vectors(box):
    a, b, c = box
    la = [np.linalg.norm(a), np.linalg.norm(b), np.linalg.norm(c)]
    ang = [math.degrees(math.acos(np.clip(b @ c / (la[1] * la[2]), -1, 1))),
           math.degrees(math.acos(np.clip(a @ c / (la[0] * la[2]), -1, 1))),
           math.degrees(math.acos(np.clip(a @ b / (la[0] * la[1]), -1, 1)))]
    return np.array(la), np.array(ang)


def one_cell(family, rng):
    """(lengths, angles) of one cell of the family (a single frame)"""
    if family == "cubic":
        L = round(float(rng.uniform(2.0, 6.0)), 3)
        return np.array([L, L, L]), np.array([90.0, 90.0, 90.0])
    if family == "ortho":
        return _lengths(rng), np.array([90.0, 90.0, 90.0])
    if family == "monoclinic":
        while True:
            be = float(rng.choice([rng.uniform(45, 85), rng.uniform(95, 135)]))
            l = _lengths(rng)
            if valid_cell(l, [90, be, 90]):
                return l, np.array([90.0, round(be, 3), 90.0])
    if family in ("hex120", "hex60"):
        a = round(float(rng.uniform(2.0, 6.0)), 3)
        c = round(float(rng.uniform(max(1.5, a / 3), min(9.0, 3 * a))), 3)
        return np.array([a, a, c]), np.array([90.0, 90.0, 120.0 if family == "hex120" else 60.0])
    if family == "truncoct-amber":
        L = round(float(rng.uniform(3.0, 7.0)), 3)
        return np.array([L, L, L]), np.array([TRUNC_OCT] * 3)
    if family == "truncoct-gmx":  # GROMACS manual table of box types
        L = round(float(rng.uniform(3.0, 7.0)), 3)
        return np.array([L, L, L]), np.array([180 - TRUNC_OCT, TRUNC_OCT, 180 - TRUNC_OCT])
    if family == "rhombdodec-sq":
        L = round(float(rng.uniform(3.0, 7.0)), 3)
        return np.array([L, L, L]), np.array([60.0, 60.0, 90.0])
    if family == "rhombdodec-hex":
        L = round(float(rng.uniform(3.0, 7.0)), 3)
        return np.array([L, L, L]), np.array([60.0, 60.0, 60.0])
    if family == "triclinic":
        while True:
            ang = np.round(rng.uniform(45, 135, size=3), 3)
            l = _lengths(rng)
            if valid_cell(l, ang):
                return l, ang
    if family == "triclinic-unreduced":
        # a reduced cell plus integer multiples of the shorter vectors: the same lattice described by
        # longer, more oblique vectors (kept when still inside the 45..135 degree / ratio<=6 range)
        for _ in range(10000):
            base_fam = str(rng.choice(["cubic", "ortho", "hex120", "monoclinic", "triclinic"]))
            l, ang = one_cell(base_fam, rng)
            box = vectors_from_lengths_angles(l, ang)
            n = rng.integers(-1, 2, size=3)
            if not n.any():
                continue
            nb = box.copy()
            nb[1] = box[1] + n[0] * box[0]
            nb[2] = box[2] + n[1] * box[0] + n[2] * box[1]
            l2, ang2 = _la_from_vectors(nb)
            l2, ang2 = np.round(l2, 4), np.round(ang2, 4)
            if valid_cell(l2, ang2) and l2.max() <= 12.0:
                b2 = vectors_from_lengths_angles(l2, ang2)
                # really unreduced in the standard orientation
                if abs(b2[1, 0]) > 0.5 * b2[0, 0] * 1.02 or abs(b2[2, 0]) > 0.5 * b2[0, 0] * 1.02 or abs(b2[2, 1]) > 0.5 * b2[1, 1] * 1.02:
                    return l2, ang2
        raise RuntimeError("no unreduced cell found")
    raise ValueError(family)


def cells(family, rng, n_frames):
    """(lengths (F,3), angles (F,3)) for a trajectory of n_frames frames.

    'varying': a triclinic cell whose lengths AND angles change from frame to frame;
    'mixed-ortho-tric': frame 0 orthorhombic, later frames triclinic (the whole-trajectory
    orthogonality dispatch must then take the general path);
    every other family: the same shape in every frame, isotropically rescaled per frame (NPT-like)."""
    if family == "varying":
        out = [one_cell("triclinic", rng) for _ in range(n_frames)]
        return np.array([o[0] for o in out]), np.array([o[1] for o in out])
    if family == "mixed-ortho-tric":
        out = [one_cell("ortho", rng)] + [one_cell("triclinic", rng) for _ in range(n_frames - 1)]
        return np.array([o[0] for o in out]), np.array([o[1] for o in out])
    l, ang = one_cell(family, rng)
    scale = 1.0 + 0.03 * np.arange(n_frames)
    return l[None, :] * scale[:, None], np.tile(ang, (n_frames, 1))


# --------------------------------------------------------------------------------------------
# point-set generators (fractional coordinates -> Cartesian in the float32 cell mdtraj holds)
# --------------------------------------------------------------------------------------------

POINT_SETS = ["inside", "spread", "faces"]


def fractional_points(kind, rng, n_atoms):
    if kind == "inside":
        return rng.uniform(0, 1, size=(n_atoms, 3))
    if kind == "spread":  # spread over +-5 cells
        return rng.uniform(-5, 5, size=(n_atoms, 3))
    if kind == "faces":  # on cell faces / edges / corners / centre planes, in several cells
        f = rng.uniform(-2, 2, size=(n_atoms, 3))
        for i in range(n_atoms):
            k = rng.integers(1, 4)
            ax = rng.choice(3, size=k, replace=False)
            f[i, ax] = rng.integers(-4, 5, size=k) * 0.5
        return f
    raise ValueError(kind)


def self_test():
    rng = np.random.default_rng(0)
    # IUPAC sign on one oriented reference quartet: looking from b to c (along +z), front bond b->a
    # along +x, rear bond c->d rotated by +phi about +z (clockwise for that viewer) => +phi
    for phi in (0.3, 2.0, -1.0):
        x = np.array([[1, 0, 0], [0, 0, 0], [0, 0, 1], [math.cos(phi), math.sin(phi), 1.0]])
        d = dihedrals(x, [[0, 1, 2, 3]])[0][0]
        assert abs(d - phi) < 1e-12, (d, phi)
    # brute force is independent of K once K is sufficient, on every family
    for fam in FAMILIES:
        l, a = cells(fam, rng, 2)
        for f in range(2):
            box = vectors_from_lengths_angles(l[f], a[f])
            d = rng.uniform(-6, 6, size=(50, 3)) @ box
            assert np.allclose(min_image(d, box, 3)[1], min_image(d, box, 5)[1], atol=1e-12), fam
    return True


if __name__ == "__main__":
    print(self_test())
