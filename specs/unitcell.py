"""Reference specification of a crystallographic unit cell (float64 NumPy).

Written from the property statement of C17 and the textbook definition, not from mdtraj's code:

  a cell (a, b, c, alpha, beta, gamma) is described by three vectors v1, v2, v3 with
      |v1| = a, |v2| = b, |v3| = c,
      angle(v2, v3) = alpha, angle(v3, v1) = beta, angle(v1, v2) = gamma       (degrees),
  i.e. by the Gram matrix G_ij = v_i . v_j.  It is *physically valid* iff G is positive definite,
  which for positive lengths is the condition
      D = 1 - cos^2 alpha - cos^2 beta - cos^2 gamma + 2 cos alpha cos beta cos gamma > 0.
  The *standard orientation* (v1 along +x, v2 in the xy-plane with positive y, v3 with positive z) is
  the unique lower-triangular factor with positive diagonal of G (Cholesky): rows of L are v1, v2, v3.
  The volume is the triple product v1 . (v2 x v3) = a b c sqrt(D).
"""
import numpy as np


def cosd(x):
    """cosine of an angle in degrees, exact at multiples of 90 degrees"""
    x = np.asarray(x, dtype=np.float64)
    c = np.cos(np.deg2rad(x))
    return np.where(np.mod(x, 180.0) == 90.0, 0.0, c)


def gram(cell):
    """cell: (..., 6) = a, b, c, alpha, beta, gamma  ->  Gram matrix (..., 3, 3)"""
    cell = np.asarray(cell, dtype=np.float64)
    a, b, c, al, be, ga = np.moveaxis(cell, -1, 0)
    ca, cb, cg = cosd(al), cosd(be), cosd(ga)
    G = np.empty(cell.shape[:-1] + (3, 3))
    G[..., 0, 0] = a * a
    G[..., 1, 1] = b * b
    G[..., 2, 2] = c * c
    G[..., 0, 1] = G[..., 1, 0] = a * b * cg
    G[..., 0, 2] = G[..., 2, 0] = a * c * cb
    G[..., 1, 2] = G[..., 2, 1] = b * c * ca
    return G


def positivity(cell):
    """D (see module docstring); the cell is valid iff D > 0"""
    cell = np.asarray(cell, dtype=np.float64)
    ca, cb, cg = cosd(cell[..., 3]), cosd(cell[..., 4]), cosd(cell[..., 5])
    return 1.0 - ca * ca - cb * cb - cg * cg + 2.0 * ca * cb * cg


def height_ratio(cell):
    """(height of v3 above the v1,v2 plane) / c  = sqrt(D) / sin(gamma); conditioning number of the cell"""
    cell = np.asarray(cell, dtype=np.float64)
    D = positivity(cell)
    sg = np.sqrt(1.0 - cosd(cell[..., 5]) ** 2)
    return np.sqrt(np.maximum(D, 0.0)) / sg


def standard_vectors(cell):
    """(..., 3, 3): rows v1, v2, v3 in the standard orientation = Cholesky factor of the Gram matrix"""
    return np.linalg.cholesky(gram(cell))


def volume(cell):
    cell = np.asarray(cell, dtype=np.float64)
    return cell[..., 0] * cell[..., 1] * cell[..., 2] * np.sqrt(positivity(cell))


def gram_of_vectors(v):
    """v: (..., 3, 3) rows are vectors -> Gram matrix in float64"""
    v = np.asarray(v, dtype=np.float64)
    return np.einsum("...ik,...jk->...ij", v, v)


def triple_product(v):
    v = np.asarray(v, dtype=np.float64)
    return np.einsum("...k,...k->...", v[..., 0, :], np.cross(v[..., 1, :], v[..., 2, :]))


def random_rotation(rng):
    """a proper rotation (det = +1), Haar-distributed, from a numpy RandomState"""
    q, r = np.linalg.qr(rng.normal(size=(3, 3)))
    q = q * np.sign(np.diag(r))
    if np.linalg.det(q) < 0:
        q[:, 0] = -q[:, 0]
    return q
