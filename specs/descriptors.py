"""Reference specifications for C16 (float64): the closed-form expressions of the derived descriptors.

Written from the documentation of each function / the cited definitions, never from mdtraj's code.
Inputs are plain arrays:  xyz (n_frames, n_atoms, 3) nm, masses (n_atoms,), unit-cell lengths (n_frames,3) nm and
angles (n_frames,3) degrees, and a plain topology description `atoms` = list of dicts
{name, element, resid, resname, chain} in atom-index order.

Sources
* contacts: docstring of md.compute_contacts ('ca' = alpha carbons, 'closest' = any two atoms, 'closest-heavy' = any two
  non-hydrogen atoms, 'sidechain(-heavy)' = (non-hydrogen) side-chain atoms, glycine falling back to its side-chain
  hydrogens; 'all' = pairs (i, j>=i+3), soft-min d = beta / log sum_i exp(beta / d_i)).
  Side chain = atoms of an amino-acid residue other than the backbone N, CA, C, O and the backbone hydrogens H, HA.
* centre of mass sum m x / sum m; centre of geometry mean x; Rg = sqrt(mean |x - centre|^2).
* gyration tensor S = 1/N sum (x-c)(x-c)^T about the centre of geometry; principal moments = eigenvalues ascending
  (l1<=l2<=l3); asphericity b = l3 - (l1+l2)/2, acylindricity c = l2 - l1, relative shape anisotropy
  kappa^2 = 3/2 (l1^2+l2^2+l3^2)/(l1+l2+l3)^2 - 1/2   (Theodorou & Suter 1985; the li are already squared lengths).
* inertia tensor I_ab = sum m (r^2 d_ab - r_a r_b) about the centre of mass; director = eigenvector of the smallest
  eigenvalue; Q = 1/(2N) sum (3 e e^T - 1); S2 = largest eigenvalue of Q   (Allen & Tildesley eq. 11.19).
* RDF: g(r_k) = H_k / ( n_pairs * V_k * sum_f 1/V_cell(f) ),  V_k = 4/3 pi (e_{k+1}^3 - e_k^3), n_bins equal bins on r_range.
* density = sum m / V_cell * 1.66053906660 (amu/nm^3 -> kg/m^3, CODATA 2018).
* DRID (Zhou & Caflisch 2012): for atom i over the n selected atoms j that are neither i nor bonded to i, y_j = 1/d_ij:
  mu = mean y, nu = sqrt(mean (y-mu)^2), xi = cbrt(mean (y-mu)^3).
* dipole moment = sum q_i r_i (relative to atom 0), with every residue made whole around its first atom and every
  residue's first atom taken at its minimum image from atom 0 (the construction described in the docstring's Notes).
* Karplus relation J(phi) = A cos^2(phi+phi0) + B cos(phi+phi0) + C with the published coefficients below.
"""
import itertools

import numpy as np

AMINO_ACIDS = {"ALA", "ARG", "ASN", "ASP", "CYS", "GLN", "GLU", "GLY", "HIS", "ILE", "LEU", "LYS", "MET", "PHE", "PRO",
               "SER", "THR", "TRP", "TYR", "VAL"}
BACKBONE = {"N", "CA", "C", "O", "H", "HA"}

# Karplus coefficients (Hz), angle offsets in degrees
KARPLUS = {
    # Voegeli, Ying, Grishaev, Bax, JACS 129, 9377 (2007), Table 1 (rigid-limit parametrisation)
    ("HN_HA", "Bax2007"): (8.40, -1.36, 0.33, -60.0),
    # Schmidt, Bluemel, Loehr, Rueterjans, J. Biomol. NMR 14, 1 (1999), Table 1
    ("HN_HA", "Ruterjans1999"): (7.90, -1.05, 0.65, -60.0),
    # Hu & Bax, JACS 119, 6360 (1997), Table 2
    ("HN_HA", "Bax1997"): (7.09, -1.42, 1.55, -60.0),
    ("HN_C", "Bax2007"): (4.36, -1.08, -0.01, 180.0),
    ("HN_CB", "Bax2007"): (3.71, -0.59, 0.08, 60.0),
}


# ------------------------------------------------------------------------------------------------ cell / distances
def box_vectors(lengths, angles_deg):
    a, b, c = [float(v) for v in lengths]
    al, be, ga = [np.deg2rad(float(v)) for v in angles_deg]
    va = np.array([a, 0.0, 0.0])
    vb = np.array([b * np.cos(ga), b * np.sin(ga), 0.0])
    cx = c * np.cos(be)
    cy = c * (np.cos(al) - np.cos(be) * np.cos(ga)) / np.sin(ga)
    cz = np.sqrt(max(c * c - cx * cx - cy * cy, 0.0))
    return np.array([va, vb, [cx, cy, cz]])


def cell_volume(lengths, angles_deg):
    a, b, c = [float(v) for v in lengths]
    ca, cb, cg = [np.cos(np.deg2rad(float(v))) for v in angles_deg]
    return a * b * c * np.sqrt(1.0 - ca * ca - cb * cb - cg * cg + 2.0 * ca * cb * cg)


_IMAGES = np.array(list(itertools.product(range(-2, 3), repeat=3)), dtype=np.float64)


def mic_displacement(d, box):
    """minimum-image representative of displacement vector(s) d (..., 3): brute force over 125 lattice images"""
    d = np.asarray(d, dtype=np.float64)
    shifts = _IMAGES @ box  # (125, 3)
    cand = d[..., None, :] + shifts  # (..., 125, 3)
    k = np.argmin(np.sum(cand * cand, axis=-1), axis=-1)
    return np.take_along_axis(cand, k[..., None, None], axis=-2)[..., 0, :]


def distances(xyz_frame, pairs, box=None):
    x = np.asarray(xyz_frame, dtype=np.float64)
    pairs = np.asarray(pairs, dtype=int).reshape(-1, 2)
    d = x[pairs[:, 1]] - x[pairs[:, 0]]
    if box is not None:
        d = mic_displacement(d, box)
    return np.sqrt(np.sum(d * d, axis=1))


# ------------------------------------------------------------------------------------------------ contacts
def residues_of(atoms):
    n_res = max(a["resid"] for a in atoms) + 1
    members = [[] for _ in range(n_res)]
    for i, a in enumerate(atoms):
        members[a["resid"]].append(i)
    return members


def scheme_members(atoms, scheme):
    """per residue: the atom indices the scheme designates"""
    out = []
    for idx in residues_of(atoms):
        resname = atoms[idx[0]]["resname"] if idx else ""
        if scheme == "ca":
            sel = [i for i in idx if atoms[i]["name"] == "CA"]
        elif scheme == "closest":
            sel = list(idx)
        elif scheme == "closest-heavy":
            sel = [i for i in idx if atoms[i]["element"] != "H"]
        elif scheme in ("sidechain", "sidechain-heavy"):
            sc = [i for i in idx if resname in AMINO_ACIDS and atoms[i]["name"] not in BACKBONE]
            if scheme == "sidechain-heavy" and resname != "GLY":
                sc = [i for i in sc if atoms[i]["element"] != "H"]
            sel = sc
        else:
            raise ValueError(scheme)
        out.append(sel)
    return out


def all_pairs(atoms, ignore_nonprotein=True, same_chain=True):
    """'all': residue pairs (i, j) with j >= i+3 (i,i+1 and i,i+2 excluded), lexicographic order; residues without an
    alpha carbon are skipped when ignore_nonprotein.  same_chain=True additionally requires both in one chain."""
    members = residues_of(atoms)
    has_ca = [any(atoms[i]["name"].lower() == "ca" for i in idx) for idx in members]
    chain = [atoms[idx[0]]["chain"] for idx in members]
    out = []
    for i in range(len(members)):
        for j in range(i + 3, len(members)):
            if ignore_nonprotein and not (has_ca[i] and has_ca[j]):
                continue
            if same_chain and chain[i] != chain[j]:
                continue
            out.append((i, j))
    return out


def contact_distances(xyz, atoms, residue_pairs, scheme, boxes=None, soft_min=False, beta=20.0):
    """(n_frames, n_pairs) float64; NaN where a residue has no designated atom"""
    members = scheme_members(atoms, scheme)
    xyz = np.asarray(xyz, dtype=np.float64)
    out = np.full((xyz.shape[0], len(residue_pairs)), np.nan)
    for k, (r0, r1) in enumerate(residue_pairs):
        ap = [(a, b) for a in members[r0] for b in members[r1]]
        if not ap:
            continue
        for f in range(xyz.shape[0]):
            d = distances(xyz[f], ap, None if boxes is None else boxes[f])
            if soft_min:
                z = beta / d
                m = z.max()
                out[f, k] = beta / (m + np.log(np.sum(np.exp(z - m))))  # log-sum-exp, no overflow
            else:
                out[f, k] = d.min()
    return out


# ------------------------------------------------------------------------------------------------ moments / shape
def center_of_mass(xyz, masses):
    xyz = np.asarray(xyz, dtype=np.float64)
    m = np.asarray(masses, dtype=np.float64)
    return np.einsum("fij,i->fj", xyz, m) / m.sum()


def center_of_geometry(xyz):
    return np.asarray(xyz, dtype=np.float64).mean(axis=1)


def rg(xyz, masses=None, about="geometry"):
    """sqrt( sum w |x - c|^2 ), w = m / sum m (uniform without masses); c = centre of geometry or of mass"""
    xyz = np.asarray(xyz, dtype=np.float64)
    n = xyz.shape[1]
    w = np.full(n, 1.0 / n) if masses is None else np.asarray(masses, dtype=np.float64) / np.sum(masses)
    c = center_of_geometry(xyz) if about == "geometry" else center_of_mass(xyz, np.ones(n) if masses is None else masses)
    d2 = np.sum((xyz - c[:, None, :]) ** 2, axis=2)
    return np.sqrt(np.sum(d2 * w, axis=1))


def gyration_tensor(xyz):
    xyz = np.asarray(xyz, dtype=np.float64)
    r = xyz - xyz.mean(axis=1, keepdims=True)
    return np.einsum("fia,fib->fab", r, r) / xyz.shape[1]


def principal_moments(xyz):
    return np.array([np.sort(np.linalg.eigvalsh(S)) for S in gyration_tensor(xyz)])


def asphericity(xyz):
    l = principal_moments(xyz)
    return l[:, 2] - 0.5 * (l[:, 0] + l[:, 1])


def acylindricity(xyz):
    l = principal_moments(xyz)
    return l[:, 1] - l[:, 0]


def relative_shape_anisotropy(xyz):
    l = principal_moments(xyz)
    return 1.5 * np.sum(l ** 2, axis=1) / np.sum(l, axis=1) ** 2 - 0.5


def inertia_tensor(xyz, masses):
    xyz = np.asarray(xyz, dtype=np.float64)
    m = np.asarray(masses, dtype=np.float64)
    r = xyz - center_of_mass(xyz, m)[:, None, :]
    r2 = np.einsum("i,fi->f", m, np.sum(r * r, axis=2))
    return r2[:, None, None] * np.eye(3) - np.einsum("i,fia,fib->fab", m, r, r)


def directors(xyz, masses, groups):
    """(n_frames, n_groups, 3) unit vectors (sign arbitrary) + relative eigen-gap (n_frames, n_groups) of each"""
    xyz = np.asarray(xyz, dtype=np.float64)
    out = np.zeros((xyz.shape[0], len(groups), 3))
    gap = np.zeros((xyz.shape[0], len(groups)))
    for g, idx in enumerate(groups):
        I = inertia_tensor(xyz[:, idx], np.asarray(masses)[idx])
        for f in range(xyz.shape[0]):
            w, v = np.linalg.eigh(I[f])
            out[f, g] = v[:, 0]
            gap[f, g] = (w[1] - w[0]) / max(w[2], 1e-300)
    return out, gap


def nematic_order(dirs):
    dirs = np.asarray(dirs, dtype=np.float64)
    n = dirs.shape[1]
    out = np.zeros(dirs.shape[0])
    for f in range(dirs.shape[0]):
        e = dirs[f] / np.linalg.norm(dirs[f], axis=1, keepdims=True)
        Q = (3.0 * np.einsum("ia,ib->ab", e, e) - n * np.eye(3)) / (2.0 * n)
        out[f] = np.linalg.eigvalsh(Q).max()
    return out


# ------------------------------------------------------------------------------------------------ rdf / density
def rdf_edges(r_range, n_bins):
    return np.linspace(float(r_range[0]), float(r_range[1]), int(n_bins) + 1)


def rdf_bounds(xyz, pairs, lengths, angles, r_range, n_bins, periodic=True, rel=1e-5, abs_tol=0.0):
    """(r, g_lo, g_hi): distances within rel*d+abs_tol of a bin edge may fall on either side"""
    edges = rdf_edges(r_range, n_bins)
    xyz = np.asarray(xyz, dtype=np.float64)
    pairs = np.asarray(pairs, dtype=int)
    lo = np.zeros(n_bins)
    hi = np.zeros(n_bins)
    inv_v = 0.0
    for f in range(xyz.shape[0]):
        box = box_vectors(lengths[f], angles[f])
        inv_v += 1.0 / cell_volume(lengths[f], angles[f])
        d = distances(xyz[f], pairs, box if periodic else None)
        t = rel * d + abs_tol
        for k in range(n_bins):
            lo[k] += np.sum((d - t > edges[k]) & (d + t < edges[k + 1]))
            hi[k] += np.sum((d + t >= edges[k]) & (d - t <= edges[k + 1]))
    shell = 4.0 / 3.0 * np.pi * (edges[1:] ** 3 - edges[:-1] ** 3)
    norm = len(pairs) * inv_v * shell
    return 0.5 * (edges[1:] + edges[:-1]), lo / norm, hi / norm


AMU_PER_NM3_IN_KG_PER_M3 = 1.66053906660


def density(masses, lengths, angles):
    m = float(np.sum(masses))
    return np.array([m / cell_volume(l, a) * AMU_PER_NM3_IN_KG_PER_M3 for l, a in zip(lengths, angles)])


# ------------------------------------------------------------------------------------------------ DRID
def drid(xyz, bonds, atom_indices=None):
    """(n_frames, 3*n_sel) ordered atom-major [mu, nu, xi]; also returns max(1/d) per entry for tolerances"""
    xyz = np.asarray(xyz, dtype=np.float64)
    n_atoms = xyz.shape[1]
    sel = list(range(n_atoms)) if atom_indices is None else [int(i) for i in atom_indices]
    bonded = {i: set() for i in sel}
    for a, b in bonds:
        if a in bonded and b in bonded:
            bonded[a].add(b)
            bonded[b].add(a)
    out = np.zeros((xyz.shape[0], len(sel), 3))
    ymax = np.zeros((xyz.shape[0], len(sel)))
    for k, i in enumerate(sel):
        partners = [j for j in sel if j != i and j not in bonded[i]]
        for f in range(xyz.shape[0]):
            d = np.sqrt(np.sum((xyz[f, partners] - xyz[f, i]) ** 2, axis=1))
            y = 1.0 / d
            mu = y.mean()
            out[f, k] = [mu, np.sqrt(np.mean((y - mu) ** 2)), np.cbrt(np.mean((y - mu) ** 3))]
            ymax[f, k] = y.max()
    return out.reshape(xyz.shape[0], -1), ymax


# ------------------------------------------------------------------------------------------------ dipole
def dipole_moments(xyz, charges, atoms, lengths, angles):
    xyz = np.asarray(xyz, dtype=np.float64)
    q = np.asarray(charges, dtype=np.float64)
    first = {}
    for i, a in enumerate(atoms):
        first.setdefault(a["resid"], i)
    out = np.zeros((xyz.shape[0], 3))
    for f in range(xyz.shape[0]):
        box = box_vectors(lengths[f], angles[f])
        for i, a in enumerate(atoms):
            f0 = first[a["resid"]]
            r = mic_displacement(xyz[f, i] - xyz[f, f0], box) + mic_displacement(xyz[f, f0] - xyz[f, 0], box)
            out[f] += q[i] * r
    return out


# ------------------------------------------------------------------------------------------------ J couplings
def dihedral(p0, p1, p2, p3):
    """IUPAC dihedral (radians) of four points, float64"""
    b1, b2, b3 = p1 - p0, p2 - p1, p3 - p2
    n1, n2 = np.cross(b1, b2), np.cross(b2, b3)
    return np.arctan2(np.dot(np.cross(n1, n2), b2) / np.linalg.norm(b2), np.dot(n1, n2))


def phi_quartets(atoms):
    """(C[i-1], N[i], CA[i], C[i]) for consecutive residues of one chain that have all four atoms, in residue order"""
    members = residues_of(atoms)

    def find(r, name):
        hits = [i for i in members[r] if atoms[i]["name"] == name]
        return hits[0] if hits else None

    out = []
    for r in range(1, len(members)):
        if not members[r] or not members[r - 1] or atoms[members[r][0]]["chain"] != atoms[members[r - 1][0]]["chain"]:
            continue
        q = (find(r - 1, "C"), find(r, "N"), find(r, "CA"), find(r, "C"))
        if None not in q:
            out.append(q)
    return out


def j3(xyz, atoms, kind, model):
    A, B, C, off = KARPLUS[(kind, model)]
    quartets = phi_quartets(atoms)
    xyz = np.asarray(xyz, dtype=np.float64)
    J = np.zeros((xyz.shape[0], len(quartets)))
    for f in range(xyz.shape[0]):
        for k, q in enumerate(quartets):
            th = dihedral(*[xyz[f, i] for i in q]) + np.deg2rad(off)
            J[f, k] = A * np.cos(th) ** 2 + B * np.cos(th) + C
    return np.array(quartets, dtype=int).reshape(-1, 4), J, 2 * abs(A) + abs(B)
