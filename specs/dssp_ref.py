"""Executable specification of the DSSP secondary-structure rules.

Written from Kabsch & Sander, Biopolymers 22 (1983) 2577-2637 ("the paper") and the published rule
order of DSSP 2.x (mdtraj's docstring: "based on DSSP-2.2.0"; since DSSP 2.1.0 pi-helices take
priority over alpha-helices) -- not from mdtraj's dssp.cpp.

Input per frame (as the property says): the backbone hydrogen bonds reported by md.kabsch_sander
(set of (acceptor residue, donor residue) = C=O(acceptor) .. H-N(donor)) and the CA coordinates.

Rules
-----
  Hbond(i, j)        C=O(i) .. H-N(j) is in the kabsch_sander list.
  n-turn(i)          Hbond(i, i+n), n = 3, 4, 5, no chain break between i and i+n.
  minimal helix      n-turn(i-1) and n-turn(i)  =>  residues i .. i+n-1 are helical:
                     n=4 -> H (unconditional);  then n=3 -> G only if all of i..i+2 are still blank or G;
                     then n=5 -> I only if all of i..i+4 are blank, I or H   (pi over alpha, DSSP >= 2.1.0).
  bridge(i, j)       |i-j| >= 3, i-1..i+1 and j-1..j+1 without chain break;
                     parallel:      [Hbond(i-1, j) and Hbond(j, i+1)] or [Hbond(j-1, i) and Hbond(i, j+1)]
                     antiparallel:  [Hbond(i, j) and Hbond(j, i)]     or [Hbond(i-1, j+1) and Hbond(j-1, i+1)]
  ladder             consecutive bridges of one type: (i+1, j+1) parallel, (i+1, j-1) antiparallel.
  bulge              two ladders of the same type joined when the gap is <= 4 residues on one strand and <= 1 on the
                     other (paper: "at most one extra residue on one strand and at most four on the other"),
                     both strands free of chain breaks; the joined ladder covers the residues in between.
  E / B              E for every residue spanned by a ladder of >= 2 bridges, B for an isolated bridge; E wins over B.
                     Sheets are assigned first; H overwrites them, G and I do not.
  T                  blank residue strictly inside an n-turn (i+1 .. i+n-1).
  S                  blank, non-T residue i with angle(CA(i)-CA(i-2), CA(i+2)-CA(i)) > 70 degrees, i-2..i+2 without break.
  'NA'               residue lacking N, CA, C or O; it has no hydrogen bonds and never takes part in a pattern.
  simplified         H,G,I -> H;  E,B -> E;  T,S,' ' -> C.

Open points (the published rules do not settle them; the spec is evaluated under every combination and a residue
is compared only if all variants agree):
  gap_breaks     whether an incomplete residue, or a C(i)-N(i+1) distance > 0.25 nm inside one chain, is a chain
                 break (the DSSP program drops incomplete residues and detects breaks geometrically; the property
                 statement only says such residues take no part in a pattern);
  overlap_merge  whether two ladders whose strands overlap or run backwards (negative gap) can be bulge-linked;
  bend margin    |kappa - 70| < BEND_MARGIN degrees (float32 CA coordinates).
"""
from __future__ import annotations

import itertools

import numpy as np

BEND_MARGIN = 0.02      # degrees; float32 coordinates of magnitude <= 20 nm: d(kappa) <= ~ 4 * 1e-6 nm / 0.2 nm rad ~ 1e-3 deg
BREAK_CN = 0.25         # nm


class Input:
    """one frame.  complete[i]; chain[i]; hbonds = set of (acceptor, donor); ca (n, 3) (nan where missing);
    cn[i] = |C(i) - N(i+1)| (nan where undefined)"""

    def __init__(self, complete, chain, hbonds, ca, cn):
        self.n = len(complete)
        self.complete, self.chain, self.hb, self.ca, self.cn = list(complete), list(chain), set(hbonds), np.asarray(ca, float), np.asarray(cn, float)


def _breaks(inp, gap_breaks):
    """brk[k] True: chain break between residue k and k+1"""
    n = inp.n
    brk = [False] * max(n - 1, 0)
    for k in range(n - 1):
        if inp.chain[k] != inp.chain[k + 1]:
            brk[k] = True
        elif gap_breaks:
            if not inp.complete[k] or not inp.complete[k + 1]:
                brk[k] = True
            elif not (inp.cn[k] <= BREAK_CN):
                brk[k] = True
    # prefix sums for range queries
    pre = [0]
    for b in brk:
        pre.append(pre[-1] + (1 if b else 0))
    return pre


def assign(inp, gap_breaks=False, overlap_merge=False, bend_shift=0.0, detail=None):
    """-> list of codes ('H','G','I','E','B','T','S',' ','NA') for one frame under one variant of the open points"""
    n = inp.n
    pre = _breaks(inp, gap_breaks)

    def nobreak(a, b):
        return 0 <= a <= b < n and pre[b] - pre[a] == 0

    hb = inp.hb
    ok = inp.complete

    def H(i, j):      # C=O(i) .. H-N(j)
        return (i, j) in hb

    ss = [" "] * n

    # ---------------- sheets
    def bridge(i, j):
        if not (i - 1 >= 0 and i + 1 < n and j - 1 >= 0 and j + 1 < n):
            return None
        if not (ok[i] and ok[j] and nobreak(i - 1, i + 1) and nobreak(j - 1, j + 1)):
            return None
        if (H(i - 1, j) and H(j, i + 1)) or (H(j - 1, i) and H(i, j + 1)):
            return "P"
        if (H(i, j) and H(j, i)) or (H(i - 1, j + 1) and H(j - 1, i + 1)):
            return "A"
        return None

    cand = set()
    for a, d in hb:
        for x in (a - 1, a, a + 1):
            for y in (d - 1, d, d + 1):
                lo, hi = (x, y) if x < y else (y, x)
                if hi - lo >= 3:
                    cand.add((lo, hi))
    ladders = []        # dict(type, i=[...ascending], j=[...ascending])
    for i, j in sorted(cand):
        t = bridge(i, j)
        if t is None:
            continue
        for lad in ladders:
            if lad["type"] != t or lad["i"][-1] + 1 != i:
                continue
            if t == "P" and lad["j"][-1] + 1 == j:
                lad["i"].append(i), lad["j"].append(j)
                break
            if t == "A" and lad["j"][0] - 1 == j:
                lad["i"].append(i), lad["j"].insert(0, j)
                break
        else:
            ladders.append({"type": t, "i": [i], "j": [j], "parts": 1})
    ladders.sort(key=lambda l: (inp.chain[l["i"][0]], l["i"][0]))
    a = 0
    while a < len(ladders):
        b = a + 1
        while b < len(ladders):
            A, B = ladders[a], ladders[b]
            ibi, iei, jbi, jei = A["i"][0], A["i"][-1], A["j"][0], A["j"][-1]
            ibj, iej, jbj, jej = B["i"][0], B["i"][-1], B["j"][0], B["j"][-1]
            skip = (A["type"] != B["type"] or not nobreak(min(ibi, ibj), max(iei, iej)) or not nobreak(min(jbi, jbj), max(jei, jej))
                    or ibj - iei >= 6 or (iei >= ibj and ibi <= iej))
            if not skip:
                gi = ibj - iei                       # 1 + number of extra residues on the first strand
                gj = (jbj - jei) if A["type"] == "P" else (jbi - jej)
                if gi <= 0 or gj <= 0:
                    linked = overlap_merge and ((gj < 6 and gi < 3) or gj < 3)
                else:
                    linked = (gj < 6 and gi < 3) or gj < 3
                if linked:
                    A["i"] = A["i"] + B["i"]
                    A["j"] = (A["j"] + B["j"]) if A["type"] == "P" else (B["j"] + A["j"])
                    A["parts"] += B["parts"]
                    del ladders[b]
                    continue
            b += 1
        a += 1
    if detail is not None:
        detail["ladders"] = ladders
    for lad in ladders:
        code = "E" if len(lad["i"]) > 1 else "B"
        for rng in (range(min(lad["i"]), max(lad["i"]) + 1), range(min(lad["j"]), max(lad["j"]) + 1)):
            for k in rng:
                if ss[k] != "E":
                    ss[k] = code

    # ---------------- helices
    def turn(i, m):
        return i >= 0 and i + m < n and H(i, i + m) and nobreak(i, i + m)

    for i in range(1, n - 3):
        if turn(i, 4) and turn(i - 1, 4):
            for k in range(i, i + 4):
                ss[k] = "H"
    for i in range(1, n - 2):
        if turn(i, 3) and turn(i - 1, 3) and all(ss[k] in (" ", "G") for k in range(i, i + 3)):
            for k in range(i, i + 3):
                ss[k] = "G"
    for i in range(1, n - 4):
        if turn(i, 5) and turn(i - 1, 5) and all(ss[k] in (" ", "I", "H") for k in range(i, i + 5)):
            for k in range(i, i + 5):
                ss[k] = "I"

    # ---------------- turns and bends
    for i in range(n):
        if ss[i] != " " or not ok[i]:
            continue
        if any(turn(i - k, m) for m in (3, 4, 5) for k in range(1, m)):
            ss[i] = "T"
            continue
        if i - 2 >= 0 and i + 2 < n and ok[i - 2] and ok[i + 2] and nobreak(i - 2, i + 2):
            u = inp.ca[i] - inp.ca[i - 2]
            v = inp.ca[i + 2] - inp.ca[i]
            nu, nv = np.linalg.norm(u), np.linalg.norm(v)
            if nu > 0 and nv > 0:
                kappa = np.degrees(np.arccos(np.clip(np.dot(u, v) / (nu * nv), -1.0, 1.0)))
                if kappa > 70.0 + bend_shift:
                    ss[i] = "S"
    return ["NA" if not ok[i] else ss[i] for i in range(n)]


VARIANTS = [dict(gap_breaks=g, overlap_merge=o, bend_shift=b) for g in (False, True) for o in (False, True) for b in (-BEND_MARGIN, BEND_MARGIN)]


def assign_all(inp):
    """-> (codes, decided): codes under the first variant, decided[i] False where the variants disagree"""
    runs = [assign(inp, **v) for v in VARIANTS]
    decided = [all(r[i] == runs[0][i] for r in runs) for i in range(inp.n)]
    return runs[0], decided, runs


SIMPLIFIED = {"H": "H", "G": "H", "I": "H", "E": "E", "B": "E", "T": "C", "S": "C", " ": "C", "NA": "NA"}
