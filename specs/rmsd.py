"""Reference specification for C06: optimal-superposition RMSD (float64).

Written from the textbook definition (Kabsch 1976/1978; reflection correction as in Kabsch 1978 /
Umeyama 1991), not from mdtraj's QCP code:

    rmsd(P, Q) = min over proper rotations R (R^T R = I, det R = +1) and translations t of
                 sqrt( 1/N * sum_i | R p_i + t - q_i |^2 )

Solution: t maps the centroid of P onto the centroid of Q; with centred P', Q' and the 3x3
covariance H = P'^T Q' = U S V^T (SVD), R = V diag(1, 1, d) U^T with d = sign(det(V U^T)), and
    N * msd = |P'|^2 + |Q'|^2 - 2 (s1 + s2 + d s3).

A second, brute-force independent evaluation (`rmsd_after`) just measures the deviation of two
given coordinate sets with no fitting at all; it is used to check what `superpose` attains.
"""
import numpy as np


def kabsch(P, Q):
    """Optimal proper rigid motion taking P onto Q.

    P, Q : (N, 3) array_like.  Returns (rmsd, R, t) with the convention  p -> R @ p + t,
    i.e. for row-vector arrays  P_fitted = P @ R.T + t.
    """
    P = np.asarray(P, dtype=np.float64)
    Q = np.asarray(Q, dtype=np.float64)
    assert P.shape == Q.shape and P.ndim == 2 and P.shape[1] == 3
    n = P.shape[0]
    cp = P.mean(axis=0)
    cq = Q.mean(axis=0)
    Pc = P - cp
    Qc = Q - cq
    H = Pc.T @ Qc
    U, S, Vt = np.linalg.svd(H)
    d = 1.0 if np.linalg.det(Vt.T @ U.T) >= 0 else -1.0
    D = np.diag([1.0, 1.0, d])
    R = Vt.T @ D @ U.T
    t = cq - R @ cp
    # evaluate the objective directly at the optimum (no cancellation-prone closed form)
    diff = Pc @ R.T - Qc
    msd = float(np.sum(diff * diff)) / n
    return float(np.sqrt(msd)), R, t


def msd_closed_form(P, Q):
    """N*msd by the closed form |P'|^2+|Q'|^2-2(s1+s2+d*s3); second route used as a cross-check of the spec."""
    P = np.asarray(P, dtype=np.float64)
    Q = np.asarray(Q, dtype=np.float64)
    Pc = P - P.mean(0)
    Qc = Q - Q.mean(0)
    U, S, Vt = np.linalg.svd(Pc.T @ Qc)
    d = 1.0 if np.linalg.det(Vt.T @ U.T) >= 0 else -1.0
    return max(0.0, (np.sum(Pc * Pc) + np.sum(Qc * Qc) - 2.0 * (S[0] + S[1] + d * S[2])) / P.shape[0])


def rmsd_after(A, B):
    """root-mean-square deviation of two coordinate sets as they stand (no fitting)"""
    A = np.asarray(A, dtype=np.float64)
    B = np.asarray(B, dtype=np.float64)
    return float(np.sqrt(np.sum((A - B) ** 2) / A.shape[0]))


def radius_of_gyration_sq(P):
    P = np.asarray(P, dtype=np.float64)
    Pc = P - P.mean(0)
    return float(np.sum(Pc * Pc) / P.shape[0])


def pair_distances(X):
    """all interatomic distances of one frame, float64, condensed order"""
    X = np.asarray(X, dtype=np.float64)
    i, j = np.triu_indices(X.shape[0], k=1)
    return np.sqrt(np.sum((X[i] - X[j]) ** 2, axis=1))


def random_rotation(rng):
    """uniform proper rotation from a unit quaternion (Shoemake); rng is a numpy RandomState"""
    q = rng.normal(size=4)
    q /= np.linalg.norm(q)
    w, x, y, z = q
    return np.array([
        [1 - 2 * (y * y + z * z), 2 * (x * y - z * w), 2 * (x * z + y * w)],
        [2 * (x * y + z * w), 1 - 2 * (x * x + z * z), 2 * (y * z - x * w)],
        [2 * (x * z - y * w), 2 * (y * z + x * w), 1 - 2 * (x * x + y * y)],
    ])
