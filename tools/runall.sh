#!/bin/bash
# run every registered check (quick by default) on the current /repo tree and summarise; evidence files are rewritten
tier=${1:-quick}
cd /verif
git -C /repo status --short | grep -v '^??' && { echo "/repo has uncommitted changes"; exit 2; }
for p in C01 C02 C03 C04 C05 C06 C07 C08 C09 C10 C11 C12 C13 C14 C15 C16 C17 C18 C19 C20; do
  ./check $p --tier $tier > /dev/shm/runall_$p.txt 2>&1; rc=$?
  echo "$p exit=$rc viol=$(grep -c '^VIOLATION' /dev/shm/runall_$p.txt) known=$(grep -c '^KNOWN' /dev/shm/runall_$p.txt) checker_errors=$(grep -c '^checker-error' /dev/shm/runall_$p.txt) $(head -1 /dev/shm/runall_$p.txt | cut -c1-160)"
done
