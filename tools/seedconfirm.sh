#!/bin/bash
# usage: tools/seedconfirm.sh <seed-id> : confirm a seeded change in a scratch worktree (demo PASS before / FAIL after, pinned
# baseline still passes with the patch) and copy it to /verif/seeded/<id>/ with the confirmation recorded in meta.json.  Does not touch /repo.
id=$1
src=/tmp/seed-out/$id
[ -d "$src" ] || src=/verif/seeded/$id
wt=$(/root/tools/mkwt.sh verify-$id)
cd $wt
before=$(PYTHONPATH=$wt /venv/bin/python $src/demo.py > /dev/shm/seed_$id.before 2>&1; echo $?)
git -C $wt apply $src/patch.diff || { echo "seed=$id patch does not apply"; cd /; git -C /repo worktree remove --force $wt; exit 2; }
needs=$(python3 -c "import json;print(' '.join(json.load(open('$src/meta.json')).get('needs_rebuild',[])))")
[ -n "$needs" ] && /venv/bin/python /root/tools/rebuild_ext.py $wt $needs > /dev/shm/seed_$id.rebuild 2>&1
after=$(PYTHONPATH=$wt /venv/bin/python $src/demo.py > /dev/shm/seed_$id.after 2>&1; echo $?)
base=$(/venv/bin/python /root/tools/run_baseline.py $wt | head -1)
cd /verif
git -C /repo worktree remove --force $wt
echo "seed=$id demo_before_exit=$before demo_after_exit=$after baseline_with_patch: $base"
mkdir -p /verif/seeded/$id
[ "$src" != "/verif/seeded/$id" ] && cp $src/patch.diff $src/demo.py $src/meta.json /verif/seeded/$id/
python3 - <<PY
import json
p='/verif/seeded/$id/meta.json'
m=json.load(open(p))
m['confirmed_by_main']={'demo_unmodified_exit': $before, 'demo_modified_exit': $after, 'baseline_with_patch': '$base', 'how': 'tools/seedconfirm.sh $id (fresh worktree of /repo HEAD, demo before/after patch, pinned baseline with patch)'}
json.dump(m, open(p,'w'), indent=1)
PY
