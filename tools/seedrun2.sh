#!/bin/bash
# usage: tools/seedrun2.sh <seed-id> [<property>] : apply the committed seeded change to a scratch copy of /repo (outside /repo and
# /verif), run the property's quick check against that copy (--repo), remove the copy; updates seeded/<id>/meta.json.
# Unlike seedrun.sh this never touches /repo, so several seeds can be run while other checks use /repo.
id=$1; prop=${2:-${id:0:3}}
cd /verif
d=/dev/shm/mdvc-seed-$id
rm -rf $d; mkdir -p $d
cp -rs /repo/mdtraj $d/mdtraj; cp -rs /repo/tests $d/tests 2>/dev/null; cp /repo/setup.py $d/ 2>/dev/null
for f in $(grep '^+++ b/' seeded/$id/patch.diff | sed 's#^+++ b/##'); do rm -f $d/$f; cp /repo/$f $d/$f; done
(cd $d && patch -p1 -s < /verif/seeded/$id/patch.diff) || { echo "$id: patch failed"; rm -rf $d; exit 2; }
./check $prop --repo $d > /dev/shm/seed_$id.check 2>&1; rc=$?
rm -rf $d
nviol=$(grep -c '^VIOLATION' /dev/shm/seed_$id.check)
python3 - <<PY
import json,re
p='/verif/seeded/$id/meta.json'
m=json.load(open(p))
lines=[l.strip() for l in open('/dev/shm/seed_$id.check') if l.startswith('VIOLATION')]
keys=[l.split('replays/')[-1] for l in lines]
ded=[k for k in keys if not k.split('/')[-1].startswith('bcc_')]
bcc=[k for k in keys if k.split('/')[-1].startswith('bcc_')]
und=[l.strip()[:160] for l in open('/dev/shm/seed_$id.check') if 'undecided' in l and 'unsupported' in l]
m['check_result']={'property':'$prop','tier':'quick','exit':$rc,'violations':$nviol,'caught_by_deductive_obligations':len(ded),'caught_by_bounded_checks':len(bcc),'violation_keys':keys[:10],'how':'tools/seedrun2.sh (patched scratch copy, ./check --repo)'}
json.dump(m,open(p,'w'),indent=1)
print('$id', 'prop=$prop', 'exit=$rc', 'deductive=%d bounded=%d'%(len(ded),len(bcc)), und[:1])
PY
