#!/bin/sh
# usage: tools/mutant.sh <name> <relfile> <sed-expr> [<relfile> <sed-expr> ...]   -> prints scratch repo path
# Makes a symlinked scratch copy of /repo (outside /repo and /verif) with the given files edited by sed.
name=$1; shift
d=/dev/shm/mdvc-mut-$name
rm -rf "$d"; mkdir -p "$d"
cp -rs /repo/mdtraj "$d/mdtraj"
cp -rs /repo/tests "$d/tests" 2>/dev/null
cp /repo/setup.py "$d/" 2>/dev/null
while [ $# -ge 2 ]; do
  f=$1; e=$2; shift 2
  rm "$d/$f"; sed -e "$e" "/repo/$f" > "$d/$f"
  if cmp -s "/repo/$f" "$d/$f"; then echo "WARNING: no change in $f" >&2; fi
done
echo "$d"
