#!/bin/bash
# usage: tools/seedcheck.sh <seed-id> [<property>]   e.g. tools/seedcheck.sh C01b
# 1. confirms the seeded change in a scratch worktree (demo PASS before / FAIL after, baseline still passes)
# 2. copies it to /verif/seeded/<id>/   3. applies it to /repo, runs the property's check, and undoes it
id=$1; prop=${2:-${id:0:3}}
src=/tmp/seed-out/$id
[ -d "$src" ] || src=/verif/seeded/$id
wt=$(/root/tools/mkwt.sh verify-$id)
cd $wt
before=$(PYTHONPATH=$wt /venv/bin/python $src/demo.py > /dev/shm/seed_$id.before 2>&1; echo $?)
git -C $wt apply $src/patch.diff || { echo "patch does not apply"; git -C /repo worktree remove --force $wt; exit 2; }
needs=$(python3 -c "import json;print(' '.join(json.load(open('$src/meta.json')).get('needs_rebuild',[])))")
[ -n "$needs" ] && /venv/bin/python /root/tools/rebuild_ext.py $wt $needs
after=$(PYTHONPATH=$wt /venv/bin/python $src/demo.py > /dev/shm/seed_$id.after 2>&1; echo $?)
base=$(/venv/bin/python /root/tools/run_baseline.py $wt | head -1)
cd /verif
git -C /repo worktree remove --force $wt
echo "seed=$id demo_before_exit=$before demo_after_exit=$after baseline_with_patch: $base"
mkdir -p /verif/seeded/$id
[ "$src" != "/verif/seeded/$id" ] && cp $src/patch.diff $src/demo.py $src/meta.json /verif/seeded/$id/
# run the check against the patched /repo
git -C /repo apply $src/patch.diff
./check $prop > /dev/shm/seed_$id.check 2>&1; rc=$?
git -C /repo checkout -- .
git -C /repo status --short | grep -v '^??' | head -3
nviol=$(grep -c '^VIOLATION' /dev/shm/seed_$id.check)
echo "seed=$id check=$prop exit=$rc violations=$nviol"
grep '^VIOLATION' /dev/shm/seed_$id.check | sed 's/replay=.*replays.[^/]*.//' | head -6
python3 - <<PY
import json
p='/verif/seeded/$id/meta.json'
m=json.load(open(p))
m['confirmed_by_main']={'demo_unmodified_exit': $before, 'demo_modified_exit': $after, 'baseline_with_patch': '$base', 'how': 'tools/seedcheck.sh $id (fresh worktree of /repo HEAD, demo before/after patch, pinned baseline with patch)'}
m['check_result']={'property': '$prop', 'tier': 'quick', 'exit': $rc, 'violations': $nviol, 'violation_keys': [l.split('replays/')[-1].strip() for l in open('/dev/shm/seed_$id.check') if l.startswith('VIOLATION')][:8]}
json.dump(m, open(p,'w'), indent=1)
PY
