#!/usr/bin/env python3
"""Run the repository's pinned baseline (guard off) and compare with /root/.vp/BASELINE.json stable_pass.
usage: tools/run_baseline.py [repo]    exit 0 iff every stable_pass test passes."""
import json
import os
import subprocess
import sys
import tempfile
import xml.etree.ElementTree as ET

repo = sys.argv[1] if len(sys.argv) > 1 else "/repo"
base = json.load(open("/root/.vp/BASELINE.json"))
out = tempfile.mktemp(suffix=".xml", dir="/dev/shm")
cmd = f"cd {repo} && /venv/bin/python -m pytest -ra -q -p no:cacheprovider --timeout=900 --continue-on-collection-errors -n 12 --junitxml={out}"
p = subprocess.run(cmd, shell=True, capture_output=True, text=True)
passed = set()
for tc in ET.parse(out).getroot().iter("testcase"):
    if not any(ch.tag in ("failure", "error", "skipped") for ch in tc):
        passed.add(f"{tc.get('classname')}::{tc.get('name')}")
os.unlink(out)
missing = [t for t in base["stable_pass"] if t not in passed]
print(f"stable_pass={len(base['stable_pass'])} passed_now={len(passed)} missing={len(missing)}")
for t in missing[:40]:
    print("  NOT PASSING:", t)
sys.exit(1 if missing else 0)
