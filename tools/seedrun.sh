#!/bin/bash
# usage: tools/seedrun.sh <seed-id> [<property>] : apply the committed seeded change to /repo, run the property's quick check, undo; updates meta.json
id=$1; prop=${2:-${id:0:3}}
cd /verif
git -C /repo apply /verif/seeded/$id/patch.diff || exit 2
./check $prop > /dev/shm/seed_$id.check 2>&1; rc=$?
git -C /repo checkout -- .
nviol=$(grep -c '^VIOLATION' /dev/shm/seed_$id.check)
python3 - <<PY
import json,re
p='/verif/seeded/$id/meta.json'
m=json.load(open(p))
lines=[l.strip() for l in open('/dev/shm/seed_$id.check') if l.startswith('VIOLATION')]
keys=[l.split('replays/')[-1] for l in lines]
ded=[k for k in keys if not k.split('/')[-1].startswith('bcc_')]
bcc=[k for k in keys if k.split('/')[-1].startswith('bcc_')]
m['check_result']={'property':'$prop','tier':'quick','exit':$rc,'violations':$nviol,'caught_by_deductive_obligations':len(ded),'caught_by_bounded_checks':len(bcc),'violation_keys':keys[:10]}
json.dump(m,open(p,'w'),indent=1)
print('$id', 'exit=$rc', 'deductive=%d bounded=%d'%(len(ded),len(bcc)))
PY
