#!/usr/bin/env python3
"""Rewrite the measured tables of DESIGN.md (between <!-- TABLE_x --> markers) from evidence/*.json and seeded/*/meta.json."""
import os
import re
import subprocess
import sys

V = os.path.dirname(os.path.dirname(os.path.abspath(__file__)))
out = subprocess.run([sys.executable, V + "/tools/gen_tables.py"], capture_output=True, text=True, check=True).stdout
props, seeds = out.split("\n\n", 1)
s = open(V + "/DESIGN.md").read()
s = re.sub(r"<!-- TABLE_PROPS -->.*?<!-- /TABLE_PROPS -->", lambda m: "<!-- TABLE_PROPS -->\n" + props.strip() + "\n<!-- /TABLE_PROPS -->", s, flags=re.S)
s = re.sub(r"<!-- TABLE_SEEDS -->.*?<!-- /TABLE_SEEDS -->", lambda m: "<!-- TABLE_SEEDS -->\n" + seeds.strip() + "\n<!-- /TABLE_SEEDS -->", s, flags=re.S)
open(V + "/DESIGN.md", "w").write(s)
