#!/usr/bin/env python3
"""Regenerate /verif/MANIFEST.json from mdvc/props.py (single source of truth for the checks)."""
import json
import os
import sys

VERIF = os.path.dirname(os.path.dirname(os.path.abspath(__file__)))
sys.path.insert(0, VERIF)
from mdvc import props  # noqa: E402

BASE = json.load(open("/root/.vp/BASELINE.json"))
checks = []
na = []
for pid in sorted(props.PROPS):
    cfg = props.PROPS[pid]
    if not cfg.get("claimed"):
        na.append({"property_id": pid, "reason": cfg.get("na_reason", "check not built yet in this round (see DESIGN.md section 9)")})
        continue
    checks.append({
        "property_id": pid,
        "quick_cmd": f"./check {pid} --tier quick",
        "thorough_cmd": f"./check {pid} --tier thorough",
        "evidence_file": f"/verif/evidence/{pid}.json",
        "replay_cmd_template": f"./check {pid} --replay {{path}}",
        "engine": "mdvc",
        "level_claimed": {"category": cfg["level"], "text": cfg["level_text"], "design_ref": f"DESIGN.md section 4 ({pid})"},
        "level_note": cfg["level_note"],
        "technique": cfg["technique"],
    })
m = {
    "version": 1,
    "setup_cmd": "./check --setup",
    "hooks": {
        "guard": "MDTRAJ_VERIF",
        "enable": "no hooks are needed: contracts are sidecar files in /verif/contracts and read /repo's source text; the guard is unused",
        "baseline_off_cmd": BASE["cmd"],
        "source_commits": [],
        "add_only": True,
    },
    "engines": [{
        "name": "mdvc",
        "path": "/verif/mdvc",
        "serves_properties": [c["property_id"] for c in checks],
        "kind_free_text": "home-built contract verifier: forward symbolic execution of the real Python ast / clang JSON AST of /repo against sidecar "
                          "contracts, obligations discharged by z3 (cvc5 on unknown); bounded contract checks (bcc/) as labelled stand-in and replay harness",
    }],
    "checks": checks,
    "not_applicable": na,
    "notes": "Exit 0 held / 1 violation (VIOLATION lines) / 3 checker broken. known_findings.txt lists recorded genuine defects (KNOWN-FINDING lines, exit 0).",
}
with open(os.path.join(VERIF, "MANIFEST.json"), "w") as fh:
    json.dump(m, fh, indent=1)
print(f"{len(checks)} checks, {len(na)} not claimed")
