"""development helper: run the contracts of one property whose function name contains a substring, serially, and print statuses.
usage: python3-vt tools/devrun.py <Cxx> <substring> [case ...]     env: REPO=/path (default /repo), ML=<chars of counter-model to show>"""
import importlib
import os
import sys

sys.path.insert(0, os.path.dirname(os.path.dirname(os.path.abspath(__file__))))
from mdvc import props, verify  # noqa: E402
from contracts import common  # noqa: E402

pid, sel = sys.argv[1], sys.argv[2]
for m in props.PROPS[pid].get("contract_modules", []):
    importlib.import_module(m)
for con in [c for c in verify.REGISTRY if c.prop == pid and sel in c.function]:
    if len(sys.argv) > 3:
        con.cases = [c for c in con.cases if str(c) in sys.argv[3:]]
    r = verify.Runner(repo=os.environ.get("REPO", "/repo"), timeout_ms=8000, setup_interp=common.setup_interp)
    res = r.run_contract(con)
    st = {}
    for o in res.obligations:
        st[o.status] = st.get(o.status, 0) + 1
    print(con.function, st, "paths", res.paths, "err", res.error, "unsup", res.unsupported[:3], "covers_missing", res.covers_missing)
    for o in res.obligations:
        if o.status != "discharged":
            print("   ", o.status, o.oid, str(o.model)[: int(os.environ.get("ML", "0"))])
