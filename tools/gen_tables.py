#!/usr/bin/env python3
"""Print markdown tables for DESIGN.md from the evidence files and seeded/*/meta.json (so the numbers are measured)."""
import glob
import json
import os

V = os.path.dirname(os.path.dirname(os.path.abspath(__file__)))
print("| id | functions under contract | obligations | discharged | bounded checks (evaluations) | known findings | level in evidence |")
print("|---|---|---|---|---|---|---|")
for f in sorted(glob.glob(V + "/evidence/C*.json")):
    e = json.load(open(f))
    c = e["coverage"]
    fu = c.get("functions_under_contract", [])
    names = sorted({x["qualname"].split(":")[-1] for x in fu})
    b = c.get("bounded", [])
    print(f"| {e['property_id']} | {len(fu)}: {', '.join(names)[:160]} | {c.get('obligations')} | {c.get('discharged')} | "
          f"{len(b)} ({sum(x.get('evaluations') or 0 for x in b)}) | {len(c.get('known_findings_reported', []))} | {e['level']} |")
print()
print("| seed | property | what it changes | needs to manifest | caught by deductive obligations | caught by bounded checks |")
print("|---|---|---|---|---|---|")
for f in sorted(glob.glob(V + "/seeded/*/meta.json")):
    m = json.load(open(f))
    r = m.get("check_result", {})
    sid = os.path.basename(os.path.dirname(f))
    print(f"| {sid} | {m['property']} | {m['summary'][:150]} | {m['what_it_needs_to_manifest'][:120]} | {r.get('caught_by_deductive_obligations', '?')} | {r.get('caught_by_bounded_checks', '?')} |")
