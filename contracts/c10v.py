"""C10 -- compute_neighborlist: the Voxels search structure of mdtraj/geometry/src/neighborlist.cpp under contract.

The structure is verified against an ABSTRACT VIEW: bin(y, z) is a sequence of (x, atom) pairs of symbolic length, given by
uninterpreted functions binx(y,z,k), binatom(y,z,k), binsize(y,z); its representation invariant (what insert + sortItems establish)
is   sorted:  k <= l < binsize(y,z)  ==>  binx(y,z,k) <= binx(y,z,l).

  findLowerBound / findUpperBound   (inductive loop invariants, every bin length, every [lower, upper) window):
        the result r lies in [lower, upper]; every slot of the window before r has x < value (resp. <= value), every slot
        from r on has x >= value (resp. > value); the window shrinks strictly in every iteration (termination).
"""
import z3

from mdvc import core
from mdvc.cinterp import CLoopSpec, NULL, Ptr, Region, StructObj
from mdvc.core import SInt, SReal, rterm, term
from mdvc.verify import contract

FILE = "mdtraj/geometry/src/neighborlist.cpp"
INC = dict(include=("mdtraj/geometry/include",))

BINX = z3.Function("binx", z3.IntSort(), z3.IntSort(), z3.IntSort(), z3.RealSort())
BINA = z3.Function("binatom", z3.IntSort(), z3.IntSort(), z3.IntSort(), z3.IntSort())
BINSIZE = z3.Function("binsize", z3.IntSort(), z3.IntSort(), z3.IntSort())


class BinVec:
    def __init__(self, y, z):
        self.y, self.z = term(y), term(z)

    def c_index(self, interp, idx):
        k = term(idx)
        return StructObj("pair", first=SReal(BINX(self.y, self.z, k)), second=SInt(BINA(self.y, self.z, k)))

    def c_method(self, interp, name, args):
        if name == "size":
            return SInt(BINSIZE(self.y, self.z))
        raise core.Unsupported(f"bin.{name}")


class BinRow:
    def __init__(self, y):
        self.y = y

    def c_index(self, interp, idx):
        return BinVec(self.y, idx)


class Bins:
    def c_index(self, interp, idx):
        return BinRow(idx)


def sorted_rep(y, z):
    k, l = z3.Ints("k! l!")
    return z3.ForAll([k, l], z3.Implies(z3.And(0 <= k, k <= l, l < BINSIZE(y, z)), BINX(y, z, k) <= BINX(y, z, l)))


def voxels(c, **fields):
    o = StructObj("Voxels", bins=Bins(), **fields)
    o.record = "Voxels"
    return o


def binary_search(ctx, which):
    c = ctx.load_c(FILE, ["_compute_neighborlist"], **INC)
    ctx.load_records(FILE, ["Voxels", "VoxelIndex"], include=INC["include"])
    y, z, lo, up, x = ctx.int("y"), ctx.int("z"), ctx.int("lower"), ctx.int("upper"), ctx.real("x")
    ctx.assume(lo >= 0, lo <= up, up.t <= BINSIZE(y.t, z.t), sorted_rep(y.t, z.t))
    X = lambda k: BINX(y.t, z.t, k)
    before = (lambda k: X(k) < x.t) if which == "findLowerBound" else (lambda k: X(k) <= x.t)
    after = (lambda k: X(k) >= x.t) if which == "findLowerBound" else (lambda k: X(k) > x.t)
    P = ctx.int("probe")  # an arbitrary slot: the quantified clauses are stated for it
    L, U = ctx.int("L"), ctx.int("U")

    def havoc(interp, env, gh):
        interp.setvar(env, "lower", L)
        interp.setvar(env, "upper", U)
        return []

    def inv(interp, env, gh):
        l, u = term(interp.getvar(env, "lower")), term(interp.getvar(env, "upper"))
        return [("window-inside-the-original-window", z3.And(lo.t <= l, l <= u, u <= up.t)),
                ("slots-before-`lower`-are-below", z3.Implies(z3.And(lo.t <= P.t, P.t < l), before(P.t))),
                ("slots-from-`upper`-on-are-above", z3.Implies(z3.And(u <= P.t, P.t < up.t), after(P.t)))]

    def at_end(interp, env, gh):
        l, u = term(interp.getvar(env, "lower")), term(interp.getvar(env, "upper"))
        ctx.ex.require(f"{which}:window-shrinks-strictly-in-every-iteration(termination)", z3.And(u - l < U.t - L.t, u - l >= 0))

    c.loop_specs[(f"Voxels::{which}", 0)] = CLoopSpec(havoc, inv, at_end=at_end)
    v = voxels(c)
    r = c.call_record_method(v, which, [y, z, x, lo, up])
    ctx.cover("returned")
    r = term(r)
    ctx.ensure("result-inside-the-window", z3.And(lo.t <= r, r <= up.t))
    ctx.ensure("every-slot-of-the-window-before-the-result-is-" + ("below" if which == "findLowerBound" else "not-above") + "-the-value", z3.Implies(z3.And(lo.t <= P.t, P.t < r), before(P.t)))
    ctx.ensure("every-slot-of-the-window-from-the-result-on-is-" + ("not-below" if which == "findLowerBound" else "above") + "-the-value", z3.Implies(z3.And(r <= P.t, P.t < up.t), after(P.t)))


contract("C10", FILE, "Voxels::findLowerBound;findUpperBound", cases=["findLowerBound", "findUpperBound"], lang="c", replay="neighborlist", covers=["returned"])(binary_search)
