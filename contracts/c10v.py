"""C10 -- compute_neighborlist: the Voxels search structure of mdtraj/geometry/src/neighborlist.cpp under contract.

The structure is verified against an ABSTRACT VIEW: bin(y, z) is a sequence of (x, atom) pairs of symbolic length, given by
uninterpreted functions binx(y,z,k), binatom(y,z,k), binsize(y,z); its representation invariant (what insert + sortItems establish)
is   sorted:  k <= l < binsize(y,z)  ==>  binx(y,z,k) <= binx(y,z,l).

  findLowerBound / findUpperBound   (inductive loop invariants, every bin length, every [lower, upper) window):
        the result r lies in [lower, upper]; every slot of the window before r has x < value (resp. <= value), every slot
        from r on has x >= value (resp. > value); the window shrinks strictly in every iteration (termination).

  Voxels::Voxels, getVoxelIndex, insert   (no cell; symbolic coordinates, extents and cutoff):
        at least one voxel per axis, positive voxel edges, origin = the minimum; for a location inside [min, max] the index is inside the
        grid and the location lies in the CLOSED voxel [min + Y*edge, min + (Y+1)*edge] (closed because the top layer is clamped);
        insert appends exactly (x, atom) to the bin of that voxel.

  Voxels::getNeighbors   (no cell; symbolic grid, atom count, coordinates, cutoff; four nested loops cut by invariants):
        for an ARBITRARY atom j < i whose voxel facts and bin slot are as established above and whose distance to atom i is below the
        cutoff: j is appended (completeness -- the voxel ranges reach j's voxel, the x window [minx, maxx] contains x_j, the binary
        searches (callee contracts, checked at the call sites) bracket j's slot, the scan reaches it and the distance test accepts it);
        every appended atom has a smaller index and lies within the cutoff (soundness, no duplicates with the symmetric completion).
  Not under contract: std::sort (assumed to sort each bin), the driver _compute_neighborlist (min/max scan, OpenMP loop, symmetric
  completion, Cython wrapper) and every path with a periodic cell (known findings there) -- bounded layer only.
"""
import z3

from mdvc import core
from mdvc.cinterp import CLoopSpec, NULL, Ptr, Region, StructObj
from mdvc.core import SInt, SReal, rterm, term
from mdvc.verify import contract

FILE = "mdtraj/geometry/src/neighborlist.cpp"
INC = dict(include=("mdtraj/geometry/include",))

BINX = z3.Function("binx", z3.IntSort(), z3.IntSort(), z3.IntSort(), z3.RealSort())
BINA = z3.Function("binatom", z3.IntSort(), z3.IntSort(), z3.IntSort(), z3.IntSort())
BINSIZE = z3.Function("binsize", z3.IntSort(), z3.IntSort(), z3.IntSort())


class BinVec:
    def __init__(self, y, z):
        self.y, self.z = term(y), term(z)

    def c_index(self, interp, idx):
        k = term(idx)
        return StructObj("pair", first=SReal(BINX(self.y, self.z, k)), second=SInt(BINA(self.y, self.z, k)))

    def c_method(self, interp, name, args):
        if name == "size":
            return SInt(BINSIZE(self.y, self.z))
        raise core.Unsupported(f"bin.{name}")


class BinRow:
    def __init__(self, y):
        self.y = y

    def c_index(self, interp, idx):
        return BinVec(self.y, idx)


class Bins:
    def c_index(self, interp, idx):
        return BinRow(idx)


def sorted_rep(y, z):
    k, l = z3.Ints("k! l!")
    return z3.ForAll([k, l], z3.Implies(z3.And(0 <= k, k <= l, l < BINSIZE(y, z)), BINX(y, z, k) <= BINX(y, z, l)))


def sorted_all():
    y, z, k, l = z3.Ints("y! z! k! l!")
    return z3.And(z3.ForAll([y, z, k, l], z3.Implies(z3.And(0 <= k, k <= l, l < BINSIZE(y, z)), BINX(y, z, k) <= BINX(y, z, l))),
                  z3.ForAll([y, z], BINSIZE(y, z) >= 0))


def voxels(c, **fields):
    o = StructObj("Voxels", bins=Bins(), **fields)
    o.record = "Voxels"
    return o


def binary_search(ctx, which):
    c = ctx.load_c(FILE, ["_compute_neighborlist"], **INC)
    ctx.load_records(FILE, ["Voxels", "VoxelIndex"], include=INC["include"])
    y, z, lo, up, x = ctx.int("y"), ctx.int("z"), ctx.int("lower"), ctx.int("upper"), ctx.real("x")
    ctx.assume(lo >= 0, lo <= up, up.t <= BINSIZE(y.t, z.t), sorted_rep(y.t, z.t))
    X = lambda k: BINX(y.t, z.t, k)
    before = (lambda k: X(k) < x.t) if which == "findLowerBound" else (lambda k: X(k) <= x.t)
    after = (lambda k: X(k) >= x.t) if which == "findLowerBound" else (lambda k: X(k) > x.t)
    P = ctx.int("probe")  # an arbitrary slot: the quantified clauses are stated for it
    L, U = ctx.int("L"), ctx.int("U")

    def havoc(interp, env, gh):
        interp.setvar(env, "lower", L)
        interp.setvar(env, "upper", U)
        return []

    def inv(interp, env, gh):
        l, u = term(interp.getvar(env, "lower")), term(interp.getvar(env, "upper"))
        return [("window-inside-the-original-window", z3.And(lo.t <= l, l <= u, u <= up.t)),
                ("slots-before-`lower`-are-below", z3.Implies(z3.And(lo.t <= P.t, P.t < l), before(P.t))),
                ("slots-from-`upper`-on-are-above", z3.Implies(z3.And(u <= P.t, P.t < up.t), after(P.t)))]

    def at_end(interp, env, gh):
        l, u = term(interp.getvar(env, "lower")), term(interp.getvar(env, "upper"))
        ctx.ex.require(f"{which}:window-shrinks-strictly-in-every-iteration(termination)", z3.And(u - l < U.t - L.t, u - l >= 0))

    c.loop_specs[(f"Voxels::{which}", 0)] = CLoopSpec(havoc, inv, at_end=at_end)
    v = voxels(c)
    r = c.call_record_method(v, which, [y, z, x, lo, up])
    ctx.cover("returned")
    r = term(r)
    ctx.ensure("result-inside-the-window", z3.And(lo.t <= r, r <= up.t))
    ctx.ensure("every-slot-of-the-window-before-the-result-is-" + ("below" if which == "findLowerBound" else "not-above") + "-the-value", z3.Implies(z3.And(lo.t <= P.t, P.t < r), before(P.t)))
    ctx.ensure("every-slot-of-the-window-from-the-result-on-is-" + ("not-below" if which == "findLowerBound" else "above") + "-the-value", z3.Implies(z3.And(r <= P.t, P.t < up.t), after(P.t)))


contract("C10", FILE, "Voxels::findLowerBound;findUpperBound", cases=["findLowerBound", "findUpperBound"], lang="c", replay="neighborlist", covers=["returned"])(binary_search)


# ---- getNeighbors, no periodic cell: completeness and soundness for an arbitrary pair ------------------------------------------------------
class Neighbors:
    """the output vector<int>&: a ghost flag records whether the probe atom J was appended; every append is checked"""

    def __init__(self, ex, J, on_push):
        self.ex, self.J, self.on_push = ex, J, on_push
        self.found = z3.BoolVal(False)
        self.count = SInt(z3.IntVal(0))

    def c_method(self, interp, name, args):
        if name == "resize" and args[0] == 0:
            self.found = z3.BoolVal(False)
            return None
        if name == "push_back":
            self.on_push(args[0])
            self.found = z3.simplify(z3.Or(self.found, term(args[0]) == self.J.t))
            return None
        raise core.Unsupported(f"neighbors.{name}")


def get_neighbors_nonperiodic(ctx, case):
    ex = ctx.ex
    c = ctx.load_c(FILE, ["_compute_neighborlist"], **INC)
    ctx.load_records(FILE, ["Voxels", "VoxelIndex"], include=INC["include"])
    xyz = Region("atomLocations")
    box, bsz, rsz = Region("periodicBoxVectors"), Region("periodicBoxSize"), Region("recipBoxSize")  # not initialised without a cell: arbitrary
    I, J, d = ctx.int("i"), ctx.int("j"), ctx.real("maxDistance")
    vy, vz, miny, minz, ny, nz = ctx.real("voxelSizeY"), ctx.real("voxelSizeZ"), ctx.real("miny"), ctx.real("minz"), ctx.int("ny"), ctx.int("nz")
    P = lambda a, k: z3.Select(xyz.mem, 3 * a + k)
    YI, ZI, YJ, ZJ, S = ctx.int("Yi"), ctx.int("Zi"), ctx.int("Yj"), ctx.int("Zj"), ctx.int("slot_j")
    ctx.assume(d > 0, vy > 0, vz > 0, ny >= 1, nz >= 1, I >= 0, J >= 0, J < I)

    def in_voxel(a, Y, Z):
        # what the constructor and getVoxelIndex establish without a cell (contract `get_voxel_index`): the atom lies in its closed voxel
        return z3.And(0 <= Y.t, Y.t < ny.t, 0 <= Z.t, Z.t < nz.t,
                      z3.ToReal(Y.t) * vy.t <= P(a, 1) - miny.t, P(a, 1) - miny.t <= (z3.ToReal(Y.t) + 1) * vy.t,
                      z3.ToReal(Z.t) * vz.t <= P(a, 2) - minz.t, P(a, 2) - minz.t <= (z3.ToReal(Z.t) + 1) * vz.t)
    ctx.assume(in_voxel(I.t, YI, ZI), in_voxel(J.t, YJ, ZJ))
    # representation invariant: atom j sits in a slot of the bin of its voxel, with its x coordinate; bins are sorted by x
    ctx.assume(0 <= S.t, S.t < BINSIZE(YJ.t, ZJ.t), BINA(YJ.t, ZJ.t, S.t) == J.t, BINX(YJ.t, ZJ.t, S.t) == P(J.t, 0))
    dist2 = sum((P(J.t, k) - P(I.t, k)) * (P(J.t, k) - P(I.t, k)) for k in range(3))
    within = dist2 < d.t * d.t

    def on_push(index):
        k = term(index)
        d2 = sum((P(k, q) - P(I.t, q)) * (P(k, q) - P(I.t, q)) for q in range(3))
        ex.require("soundness:a-reported-atom-has-a-smaller-index(no-duplicates,not-itself)", k < I.t)
        ex.require("soundness:a-reported-atom-is-within-the-cutoff", d2 <= d.t * d.t)
    nb = Neighbors(ex, J, on_push)
    v = voxels(c, voxelSizeY=vy, voxelSizeZ=vz, miny=miny, minz=minz, ny=ny, nz=nz, periodicBoxSize=Ptr(bsz, 0), recipBoxSize=Ptr(rsz, 0), triclinic=False,
               periodicBoxVectors=Ptr(box, 0), usePeriodic=False)
    avi = StructObj("VoxelIndex", y=YI, z=ZI)
    avi.record = "VoxelIndex"

    # callee contracts (proved above for every bin and window) at the two call sites
    def bound_model(which):
        def model(interp, args):
            _, y, z, x, lo, up = args
            y, z, x, lo, up = term(y), term(z), rterm(x), term(lo), term(up)
            ex.require(f"call:{which}:window-inside-the-bin", z3.And(0 <= lo, lo <= up, up <= BINSIZE(y, z)))
            r = z3.Int(core.fresh_name(which))
            k = z3.Int("k!")
            before = (BINX(y, z, k) < x) if which == "findLowerBound" else (BINX(y, z, k) <= x)
            after = (BINX(y, z, k) >= x) if which == "findLowerBound" else (BINX(y, z, k) > x)
            ex.assume(z3.And(lo <= r, r <= up, z3.ForAll([k], z3.Implies(z3.And(lo <= k, k < r), before)), z3.ForAll([k], z3.Implies(z3.And(r <= k, k < up), after))))
            return SInt(r)
        return model
    c.call_models["Voxels::findLowerBound"] = bound_model("findLowerBound")
    c.call_models["Voxels::findUpperBound"] = bound_model("findUpperBound")

    def cut(name, fact):
        """assert-then-assume: an intermediate fact proved where it arises and used by the later obligations of the path"""
        ex.require(name, fact)
        ex.assume(fact)

    entry = {}
    g = {}

    def fresh_found(tag):
        nb.found = z3.Bool(core.fresh_name("found@" + tag))

    def mono(tag, gh):
        if gh.get("entry"):
            entry[tag] = nb.found
            return []
        return [("already-found-stays-found", z3.Implies(entry[tag], nb.found))]

    # z loop
    def z_havoc(interp, env, gh):
        fresh_found("z")
        vi = interp.getvar(env, "voxelIndex")
        vi.fields["y"], vi.fields["z"] = SInt(z3.Int(core.fresh_name("vi.y"))), SInt(z3.Int(core.fresh_name("vi.z")))
        return []

    def near(k):
        dk = P(J.t, k) - P(I.t, k)
        return z3.And(dk < d.t, -dk < d.t)

    def z_inv(interp, env, gh):
        z = term(interp.getvar(env, "z"))
        sz = term(interp.getvar(env, "startz"))
        if gh.get("entry"):
            ez = term(interp.getvar(env, "endz"))
            cut("range:an-atom-closer-than-the-cutoff-along-z-lies-in-a-visited-voxel-layer", z3.Implies(near(2), z3.And(sz <= ZJ.t, ZJ.t <= ez)))
        return mono("z", gh) + [("voxel-layers-below-z-are-done", z3.Implies(z3.And(within, sz <= ZJ.t, ZJ.t < z), nb.found))]

    def y_havoc(interp, env, gh):
        fresh_found("y")
        vi = interp.getvar(env, "voxelIndex")
        vi.fields["y"] = SInt(z3.Int(core.fresh_name("vi.y")))
        return []

    def y_inv(interp, env, gh):
        z, y, sy = term(interp.getvar(env, "z")), term(interp.getvar(env, "y")), term(interp.getvar(env, "starty"))
        if gh.get("entry"):
            ey = term(interp.getvar(env, "endy"))
            cut("range:an-atom-closer-than-the-cutoff-along-y-lies-in-a-visited-voxel-row", z3.Implies(near(1), z3.And(sy <= YJ.t, YJ.t <= ey)))
        return mono("y", gh) + [("voxel-rows-below-y-are-done", z3.Implies(z3.And(within, z == ZJ.t, sy <= YJ.t, YJ.t < y), nb.found))]

    def i_havoc(interp, env, gh):
        fresh_found("item")
        return []

    def i_inv(interp, env, gh):
        z, y, item = term(interp.getvar(env, "z")), term(interp.getvar(env, "y")), term(interp.getvar(env, "item"))
        rs = interp.getvar(env, "rangeStart")
        rs0 = term(rs.region.local[0]) if getattr(rs, "region", None) is not None and rs.region.local is not None else term(rs[0])
        return mono("item", gh) + [("slots-before-item-are-done", z3.Implies(z3.And(within, z == ZJ.t, y == YJ.t, rs0 <= S.t, S.t < item), nb.found))]

    c.loop_specs[("Voxels::getNeighbors", 0)] = CLoopSpec(z_havoc, z_inv)
    c.loop_specs[("Voxels::getNeighbors", 1)] = CLoopSpec(y_havoc, y_inv)
    c.loop_specs[("Voxels::getNeighbors", 3)] = CLoopSpec(i_havoc, i_inv)
    def here(interp, env):
        return z3.And(term(interp.getvar(env, "z")) == ZJ.t, term(interp.getvar(env, "y")) == YJ.t)

    def decl_hook(interp, env, name, val):
        if name in ("dy", "dz") and interp.fname == "Voxels::getNeighbors":
            k = 1 if name == "dy" else 2
            dk = P(J.t, k) - P(I.t, k)
            cut(f"window:{name}-is-a-lower-bound-of-the-separation-of-any-atom-of-this-voxel-from-the-centre-atom", z3.Implies(here(interp, env), z3.And(rterm(val) >= 0, rterm(val) * rterm(val) <= dk * dk)))
        if name == "dist2" and interp.fname == "Voxels::getNeighbors":
            dx = P(J.t, 0) - P(I.t, 0)
            cut("window:dist2-exceeds-the-squared-x-separation-of-an-atom-within-the-cutoff", z3.Implies(z3.And(within, here(interp, env)), rterm(val) > dx * dx))
        if name == "dist" and interp.fname == "Voxels::getNeighbors":
            dx = P(J.t, 0) - P(I.t, 0)
            cut("window:|x_j-x_i|<dist", z3.Implies(z3.And(within, here(interp, env)), z3.And(dx < rterm(val), -dx < rterm(val))))
        if name == "dSquared":
            # assert-then-assume: the value compared with the cutoff is the squared distance between atom `index` and the centre atom
            k = term(interp.getvar(env, "index"))
            d2 = sum((P(k, q) - P(I.t, q)) * (P(k, q) - P(I.t, q)) for q in range(3))
            ex.require("item:dSquared-is-the-squared-distance-to-the-centre-atom", rterm(val) == d2)
            ex.assume(rterm(val) == d2)
        return val
    c.decl_hook = decl_hook
    ctx.assume(sorted_all())
    cut("lemma:within-the-cutoff=>closer-than-the-cutoff-along-every-axis", z3.Implies(within, z3.And(near(0), near(1), near(2))))
    c.call_record_method(v, "getNeighbors", [nb, I, d, Ptr(xyz, 0), avi])
    ctx.cover("returned")
    ctx.ensure("completeness:atom-j-within-the-cutoff-is-reported", z3.Implies(within, nb.found))


contract("C10", FILE, "Voxels::getNeighbors(no-cell)", lang="c", replay="neighborlist", covers=["returned"], max_paths=200)(get_neighbors_nonperiodic)


# ---- constructor + getVoxelIndex + insert, no periodic cell: the facts getNeighbors relies on --------------------------------------------------
class RecBins(Bins):
    """bins during construction/insertion: resize calls are accepted, push_back is recorded with the bin it went to"""

    def __init__(self):
        self.pushed = []

    def c_method(self, interp, name, args):
        if name == "resize":
            return None
        raise core.Unsupported(f"bins.{name}")

    def c_index(self, interp, idx):
        outer = self

        class Row:
            def c_method(self, interp, name, args):
                if name == "resize":
                    return None
                raise core.Unsupported(f"bins[i].{name}")

            def c_index(self, interp, j):
                class Bin:
                    def c_method(self, interp, name, args):
                        if name == "resize" and args[0] == 0:
                            return None
                        if name == "push_back":
                            outer.pushed.append((idx, j, args[0]))
                            return None
                        raise core.Unsupported(f"bins[i][j].{name}")
                return Bin()
        return Row()


def voxel_index_nocell(ctx, case):
    ex = ctx.ex
    c = ctx.load_c(FILE, ["_compute_neighborlist"], **INC)
    ctx.load_records(FILE, ["Voxels", "VoxelIndex"], include=INC["include"])
    box = Region("periodicBoxVectors")
    d, miny, maxy, minz, maxz = ctx.real("maxDistance"), ctx.real("miny"), ctx.real("maxy"), ctx.real("minz"), ctx.real("maxz")
    loc = Region("location")
    x, y, z = (z3.Select(loc.mem, k) for k in range(3))
    atom = ctx.int("atom")
    # what _compute_neighborlist passes: voxel edge = cutoff, [min, max] = the range of the coordinates, and the atom is one of them
    ctx.assume(d > 0, miny <= maxy, minz <= maxz, miny.t <= y, y <= maxy.t, minz.t <= z, z <= maxz.t)
    trivial = CLoopSpec(lambda interp, env, gh: [], lambda interp, env, gh: [])
    c.loop_specs[("Voxels::Voxels", 0)] = trivial
    c.loop_specs[("Voxels::Voxels", 1)] = trivial
    bins = RecBins()
    v = c.construct_record("Voxels", [d, d, miny, maxy, minz, maxz, Ptr(box, 0), False], preset={"bins": bins})
    ny, nz, vy, vz = (v.fields[k] for k in ("ny", "nz", "voxelSizeY", "voxelSizeZ"))
    ctx.cover("constructed")
    ctx.ensure("constructor:at-least-one-voxel-per-axis", z3.And(term(ny) >= 1, term(nz) >= 1))
    ctx.ensure("constructor:voxel-edges-positive", z3.And(rterm(vy) > 0, rterm(vz) > 0))
    ctx.ensure("constructor:origin-is-the-minimum", z3.And(rterm(v.fields["miny"]) == miny.t, rterm(v.fields["minz"]) == minz.t))
    vi = c.call_record_method(v, "getVoxelIndex", [Ptr(loc, 0)])
    Y, Z = term(vi.fields["y"]), term(vi.fields["z"])
    ctx.ensure("getVoxelIndex:index-inside-the-grid", z3.And(0 <= Y, Y < term(ny), 0 <= Z, Z < term(nz)))
    for ax, K_, v_, c_, m_ in (("y", Y, vy, y, miny), ("z", Z, vz, z, minz)):
        ctx.ensure(f"getVoxelIndex:the-atom-lies-in-its-closed-voxel({ax}):lower-face", z3.ToReal(K_) * rterm(v_) <= c_ - m_.t)
        ctx.ensure(f"getVoxelIndex:the-atom-lies-in-its-closed-voxel({ax}):upper-face", c_ - m_.t <= (z3.ToReal(K_) + 1) * rterm(v_))
    if case == "insert":
        c.call_record_method(v, "insert", [atom, Ptr(loc, 0)])
        ctx.ensure("insert:one-entry-appended", len(bins.pushed) == 1)
        if len(bins.pushed) == 1:
            by, bz, pair = bins.pushed[0]
            ctx.ensure("insert:into-the-bin-of-the-atom's-voxel", z3.And(term(by) == Y, term(bz) == Z))
            ctx.ensure("insert:the-entry-is-(x,atom)", z3.And(rterm(pair.fields["first"]) == x, term(pair.fields["second"]) == atom.t))


contract("C10", FILE, "Voxels::Voxels;getVoxelIndex;insert(no-cell)", cases=["index", "insert"], lang="c", replay="neighborlist", covers=["constructed"], max_paths=200)(voxel_index_nocell)
