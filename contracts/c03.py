"""C03 -- slicing, joining, stacking act like array indexing; no stale cache; no aliasing.

Class invariant inv_traj(t) (cache clause): `t._rmsd_traces is None`, or it is the trace array OF
THE CURRENT coordinates: the term tr(X) indexed by exactly the frame-index path of `t._xyz`, with the
coordinates not mutated since (every in-place mutation changes the coordinate term).  Established by
__init__, preserved by every public mutator/constructor-like method => holds after every finite
sequence of operations => the precentred RMSD shortcut is exact after any history.

Functional postconditions: every per-frame field of the result is the same numpy indexing /
concatenation of the sources (value terms equal); aliasing: result coordinate buffer never shared
with an input; for slice(copy=True), join, atom_slice(inplace=False) no buffer shared at all.
"""
import z3

from mdvc import core
from mdvc.core import Unsupported
from mdvc.pyinterp import Namespace, Obj, PyExc
from mdvc.tarr import KeyTok, TArr, fresh_buf
from mdvc.verify import contract

from . import trajmodel as TM

FIELDS = ["_xyz", "_time", "_unitcell_lengths", "_unitcell_angles"]


def frame_only(idx):
    return all(len(step) == 1 for step in idx)


def cache_ok(t):
    tr, x = t.fields.get("_rmsd_traces"), t.fields["_xyz"]
    if tr is None:
        return True
    if not isinstance(tr, TArr) or not isinstance(x, TArr):
        return False
    return tr.base == ("tr", x.base) and tr.idx == x.idx and frame_only(x.idx) and tr.scale == 1.0 and x.scale == 1.0


def lengths_ok(t, F):
    """every per-frame field has the same leading length"""
    out = []
    for f in FIELDS:
        v = t.fields.get(f)
        if v is None:
            continue
        out.append(v.shape[0] if v.shape else None)
    return out


def mutate(arr, tag):
    """in-place modification of a coordinate buffer: the value term changes"""
    arr.base = (tag, arr.base)
    arr.mutations.append(tag)


def install(ctx, log=None):
    log = [] if log is None else log
    TM.install_trajectory_env(ctx, log, ctx.interp.repo)
    im = ctx.interp.import_models

    def center(xyz):
        mutate(xyz, "centered")
        return TArr(("tr", xyz.base), idx=xyz.idx, shape=(xyz.shape[0],))

    def superpose_atom_major(ref, align, ref_g, self_g, displace, *a, **k):
        mutate(displace, "rotated")

    im["mdtraj._rmsd"] = Namespace("_rmsd", _center_inplace_atom_major=center, superpose_atom_major=superpose_atom_major)
    im["mdtraj"] = Namespace("mdtraj", _rmsd=im["mdtraj._rmsd"])

    def whole(xyz, box, bonds):
        mutate(xyz, "whole")

    def image(xyz, box, *a):
        mutate(xyz, "imaged")

    im["mdtraj.geometry"] = Namespace("geometry", _geometry=Namespace("_geometry", whole_molecules=whole, image_molecules=image),
                                      distance=Namespace("distance"))
    return log


def with_traces(t):
    x = t.fields["_xyz"]
    t.fields["_rmsd_traces"] = TArr(("tr", x.base), idx=x.idx, shape=(x.shape[0],))


def take(arr, key):
    """specification of numpy frame indexing on a traced array"""
    if arr is None:
        return None
    return arr.sym_getitem(None, key)


def as_frames(v, key_is_int):
    """an int key selects one frame: the trajectory field is that frame with a leading axis of length 1"""
    if v is None or not key_is_int:
        return v
    return v.derive(idx=v.idx + ((("new",),),))


def norm1(v):
    """strip the spelling differences of 'add a leading axis' (val[np.newaxis, ...] / np.array([scalar]) / atleast_1d)"""
    if v is None:
        return None
    idx = tuple(s for s in v.idx)
    base = v.base
    if isinstance(base, tuple) and base and base[0] == "stack1":
        inner = base[1]
        return (inner[0], inner[1] + ((("new",),),), inner[2])
    out = []
    for s in idx:
        if s and s[0] == ("new",):
            out.append((("new",),))
        else:
            out.append(s)
    return (base, tuple(out), round(v.scale, 12))


def same_value(a, b):
    if a is None or b is None:
        return a is None and b is None
    return norm1(a) == norm1(b)


SLICE_CASES = [(kind, copy, cell, traces) for kind in ("slice", "array", "int") for copy in (True, False)
               for cell in (True, False) for traces in (True, False)]


@contract("C03", "mdtraj/core/trajectory.py", "Trajectory.slice", cases=SLICE_CASES, replay="ops")
def traj_slice(ctx, case):
    kind, copy, cell, traces = case
    install(ctx)
    F = ctx.int("F")
    ctx.assume(F >= 1)
    t, mod = TM.make_traj(ctx, F, 5, cell=cell)
    if traces:
        with_traces(t)
    if kind == "int":
        key = ctx.int("k")
        ctx.assume(key >= 0, key < F)
        newF = 1
    else:
        newF = ctx.int("F2")
        ctx.assume(newF >= 0)
        key = KeyTok("key", advanced=(kind == "array"), length=newF)
    src = dict(t.fields)
    out = ctx.call_method(t, "slice", key, copy=copy)
    ctx.ensure("no-exception", not out.raised)
    if out.raised:
        return
    r = out.value
    is_int = kind == "int"
    for f in FIELDS:
        ctx.ensure(f"{f}==take(source,key)", same_value(r.fields[f], as_frames(take(src[f], key), is_int)))
    ctx.ensure("inv_traj(result):cache-clause", cache_ok(r))
    ctx.ensure("inv_traj(self):cache-clause", cache_ok(t))
    ctx.ensure("xyz-buffer-not-shared", r.fields["_xyz"].buf != src["_xyz"].buf) if (copy or kind == "array") else None
    if copy:
        for f in FIELDS + ["_rmsd_traces"]:
            a, b = r.fields.get(f), src.get(f)
            if a is not None and b is not None:
                ctx.ensure(f"copy=True:{f}-buffer-fresh", a.buf != b.buf)
        ctx.ensure("copy=True:topology-fresh", r.fields["_topology"] is not src["_topology"])
    for f in FIELDS:
        ctx.ensure(f"self-unchanged:{f}", t.fields[f] is src[f] and not (src[f].mutations if src[f] is not None else []))


@contract("C03", "mdtraj/core/trajectory.py", "Trajectory.__init__", cases=[True, False], replay="ops")
def traj_init(ctx, case):
    cell = case
    install(ctx)
    mod = ctx.module("mdtraj/core/trajectory.py")
    F = ctx.int("F")
    ctx.assume(F >= 1)
    xyz = TArr("xyz", shape=(F, 5, 3))
    out = ctx.call(mod.globals["Trajectory"], xyz, TM.TopologyTok(5), time=TArr("time", shape=(F,)),
                   unitcell_lengths=TArr("L", shape=(F, 3)) if cell else None,
                   unitcell_angles=TArr("ang", shape=(F, 3)) if cell else None)
    ctx.ensure("no-exception", not out.raised)
    if out.raised:
        return
    t = out.value
    ctx.ensure("cache-empty-after-construction", t.fields["_rmsd_traces"] is None)
    ctx.ensure("fields-are-the-arguments", same_value(t.fields["_xyz"], xyz))


@contract("C03", "mdtraj/core/trajectory.py", "Trajectory.xyz(setter)", replay="ops")
def xyz_setter(ctx, case):
    install(ctx)
    F = ctx.int("F")
    ctx.assume(F >= 1)
    t, mod = TM.make_traj(ctx, F, 5)
    with_traces(t)
    new = TArr("newxyz", shape=(F, 5, 3))
    ctx.interp.setattr(t, "xyz", new)
    ctx.ensure("inv_traj:cache-clause-after-assignment", cache_ok(t))
    ctx.ensure("coordinates-are-the-assigned-array", same_value(t.fields["_xyz"], new))


@contract("C03", "mdtraj/core/trajectory.py", "Trajectory.atom_slice", cases=[(i, c, tr) for i in (False, True) for c in (True, False) for tr in (True, False)], replay="ops")
def atom_slice(ctx, case):
    inplace, cell, traces = case
    install(ctx)
    F = ctx.int("F")
    ctx.assume(F >= 1)
    t, mod = TM.make_traj(ctx, F, 5, cell=cell)
    if traces:
        with_traces(t)
    sub = TM.TopologyTok(3, "subset")
    t.fields["_topology"] = TopWithSubset(5, sub)
    src = dict(t.fields)
    atoms = KeyTok("atoms", advanced=True, length=3)
    out = ctx.call_method(t, "atom_slice", atoms, inplace=inplace)
    ctx.ensure("no-exception", not out.raised)
    if out.raised:
        return
    r = out.value
    exp_xyz = src["_xyz"].sym_getitem(None, (slice(None), atoms))
    ctx.ensure("xyz==source[:,atoms]", same_value(r.fields["_xyz"], exp_xyz))
    ctx.ensure("xyz-buffer-fresh", r.fields["_xyz"].buf != src["_xyz"].buf)
    ctx.ensure("topology==subset(atoms)", r.fields["_topology"] is sub)
    ctx.ensure("inv_traj(result):cache-clause", cache_ok(r))
    for f in ["_time", "_unitcell_lengths", "_unitcell_angles"]:
        ctx.ensure(f"{f}-value-kept", same_value(r.fields[f], src[f]))
        if not inplace and src[f] is not None:
            ctx.ensure(f"inplace=False:{f}-buffer-fresh", r.fields[f].buf != src[f].buf)
    if inplace:
        ctx.ensure("inplace=True-returns-self", r is t)
    else:
        ctx.ensure("inplace=False-leaves-self", all(t.fields[f] is src[f] for f in FIELDS) and cache_ok(t))


class TopWithSubset(TM.TopologyTok):
    def __init__(self, n, sub):
        super().__init__(n)
        self.sub = sub

    def sym_getattr(self, interp, attr):
        if attr == "subset":
            return lambda idx: self.sub
        if attr == "join":
            return lambda other, **k: TM.TopologyTok(self._numAtoms + other._numAtoms, "joined")
        return super().sym_getattr(interp, attr)

    def sym_compare(self, interp, op, other, reflected):
        if op == "Eq":
            return core.SBool(z3.Bool("topologies-equal"))
        return NotImplemented


@contract("C03", "mdtraj/core/trajectory.py", "Trajectory.join", cases=[(c, tr) for c in (True, False) for tr in (True, False)], replay="ops")
def join(ctx, case):
    cell, traces = case
    install(ctx)
    F1, F2 = ctx.int("F1"), ctx.int("F2")
    ctx.assume(F1 >= 1, F2 >= 1)
    a, mod = TM.make_traj(ctx, F1, 5, cell=cell, name="a")
    b, _ = TM.make_traj(ctx, F2, 5, cell=cell, name="b")
    if traces:
        with_traces(a)
        with_traces(b)
    for t in (a, b):
        t.fields["_topology"] = TopWithSubset(5, None)
    srca, srcb = dict(a.fields), dict(b.fields)
    out = ctx.call_method(a, "join", b, check_topology=False)
    ctx.ensure("no-exception", not out.raised)
    if out.raised:
        return
    r = out.value
    for f in FIELDS:
        if srca[f] is None:
            ctx.ensure(f"{f}-absent", r.fields[f] is None)
            continue
        exp = ("concat", 0, srca[f].nf(), srcb[f].nf())
        ctx.ensure(f"{f}==concatenate(a,b)", r.fields[f].base == exp and r.fields[f].idx == ())
        ctx.ensure(f"{f}-buffer-fresh", r.fields[f].buf not in (srca[f].buf, srcb[f].buf))
        ctx.ensure(f"{f}-length", core.term(r.fields[f].shape[0]) == core.term(F1 + F2))
    ctx.ensure("inv_traj(result):cache-clause", cache_ok(r))
    ctx.ensure("topology-fresh", r.fields["_topology"] is not srca["_topology"])
    ctx.ensure("inputs-unchanged", all(a.fields[f] is srca[f] for f in FIELDS) and all(b.fields[f] is srcb[f] for f in FIELDS))


@contract("C03", "mdtraj/core/trajectory.py", "Trajectory.join", cases=["mixed-cell"], replay="ops")
def join_mixed(ctx, case):
    install(ctx)
    a, mod = TM.make_traj(ctx, 2, 5, cell=True, name="a")
    b, _ = TM.make_traj(ctx, 2, 5, cell=False, name="b")
    out = ctx.call_method(a, "join", b, check_topology=False)
    ctx.ensure("mixing-cell-and-no-cell-is-refused", out.raised and out.exc.name == "ValueError")


@contract("C03", "mdtraj/core/trajectory.py", "Trajectory.stack", cases=[(c, tr) for c in (True, False) for tr in (True, False)], replay="ops")
def stack(ctx, case):
    cell, traces = case
    install(ctx)
    F = ctx.int("F")
    ctx.assume(F >= 1)
    a, mod = TM.make_traj(ctx, F, 5, cell=cell, name="a")
    b, _ = TM.make_traj(ctx, F, 4, cell=cell, name="b")
    if traces:
        with_traces(a)
        with_traces(b)
    a.fields["_topology"] = TopWithSubset(5, None)
    b.fields["_topology"] = TopWithSubset(4, None)
    srca, srcb = dict(a.fields), dict(b.fields)
    out = ctx.call_method(a, "stack", b)
    ctx.ensure("no-exception", not out.raised)
    if out.raised:
        return
    r = out.value
    ctx.ensure("xyz==hstack(a,b)", r.fields["_xyz"].base == ("hstack", srca["_xyz"].nf(), srcb["_xyz"].nf()))
    ctx.ensure("xyz-buffer-fresh", r.fields["_xyz"].buf not in (srca["_xyz"].buf, srcb["_xyz"].buf))
    for f in ["_time", "_unitcell_lengths", "_unitcell_angles"]:
        ctx.ensure(f"{f}-of-left-operand", same_value(r.fields[f], srca[f]))
    ctx.ensure("inv_traj(result):cache-clause", cache_ok(r))
    ctx.ensure("atom-count", r.fields["_xyz"].shape[1] == 9)


@contract("C03", "mdtraj/core/trajectory.py", "Trajectory.center_coordinates", replay="ops")
def center(ctx, case):
    install(ctx)
    F = ctx.int("F")
    ctx.assume(F >= 1)
    t, mod = TM.make_traj(ctx, F, 5)
    out = ctx.call_method(t, "center_coordinates")
    ctx.ensure("no-exception", not out.raised)
    ctx.ensure("inv_traj:cache-clause", cache_ok(t))
    ctx.ensure("cache-populated", t.fields["_rmsd_traces"] is not None)


INPLACE = [("make_molecules_whole", i) for i in (True, False)] + [("image_molecules", i) for i in (True, False)]


@contract("C03", "mdtraj/core/trajectory.py", "Trajectory.make_molecules_whole|image_molecules", cases=INPLACE, replay="ops")
def reimage(ctx, case):
    meth, inplace = case
    install(ctx)
    F = ctx.int("F")
    ctx.assume(F >= 1)
    t, mod = TM.make_traj(ctx, F, 5)
    with_traces(t)
    src = dict(t.fields)
    nf_before = src["_xyz"].nf()
    kw = dict(sorted_bonds=TArr("bonds", shape=(4, 2), dtype="int32"))
    if meth == "image_molecules":
        kw.update(anchor_molecules=[], other_molecules=[])
    out = ctx.call_method(t, meth, inplace=inplace, **kw)
    ctx.ensure("no-exception", not out.raised)
    if out.raised:
        return
    r = out.value
    ctx.ensure("inv_traj(result):cache-clause", cache_ok(r))
    ctx.ensure("inv_traj(self):cache-clause", cache_ok(t))
    if inplace:
        ctx.ensure("inplace=True-returns-self", r is t)
    else:
        ctx.ensure("inplace=False:self-coordinates-untouched", t.fields["_xyz"] is src["_xyz"] and src["_xyz"].nf() == nf_before)
        ctx.ensure("inplace=False:result-buffer-fresh", r.fields["_xyz"].buf != src["_xyz"].buf)
    for f in ["_time", "_unitcell_lengths", "_unitcell_angles"]:
        ctx.ensure(f"{f}-untouched", same_value(r.fields[f], src[f]) and not src[f].mutations)


@contract("C03", "mdtraj/core/trajectory.py", "Trajectory.superpose", replay="ops")
def superpose(ctx, case):
    """only the cache clause: superpose ends by assigning through the xyz setter"""
    install(ctx)
    t, mod = TM.make_traj(ctx, 3, 5)
    with_traces(t)
    ref, _ = TM.make_traj(ctx, 2, 5, name="ref")
    try:
        out = ctx.call_method(t, "superpose", ref)
    except Unsupported as e:
        raise
    ctx.ensure("no-exception", not out.raised)
    ctx.ensure("inv_traj:cache-clause", cache_ok(t))


def _join_mixed_list(ctx, case):
    """join with a LIST of others: cell presence must agree for EVERY element (self, other_k); any mixture is refused"""
    self_cell, others = case
    install(ctx)
    t0, mod = TM.make_traj(ctx, 2, 5, cell=self_cell, name="t0")
    lst = [TM.make_traj(ctx, 2, 5, cell=c, name=f"o{k}")[0] for k, c in enumerate(others)]
    for t in [t0] + lst:
        t.fields["_topology"] = TopWithSubset(5, None)
    out = ctx.call_method(t0, "join", lst, check_topology=False)
    mixed = any(c != self_cell for c in others)
    if mixed:
        ctx.ensure("mixing-cell-and-no-cell-is-refused(ValueError)", out.raised and out.exc.name == "ValueError")
    else:
        ctx.ensure("homogeneous-list-is-joined", not out.raised)
        if not out.raised:
            r = out.value
            have = r.fields["_unitcell_lengths"] is not None and r.fields["_unitcell_angles"] is not None
            ctx.ensure("complete-cell-exactly-when-inputs-had-one", have == self_cell)


_LIST_CASES = [(s, o) for s in (True, False) for o in ((True, True), (True, False), (False, True), (False, False))]
contract("C03", "mdtraj/core/trajectory.py", "Trajectory.join(list)", cases=_LIST_CASES, replay="ops")(_join_mixed_list)


# ---------------------------------------------------------------------------------------------
# the remaining field setters: a value of the wrong frame count is refused and nothing changes; an accepted one is stored
SETTER_CASES = [(f, ok) for f in ("time", "unitcell_lengths", "unitcell_angles") for ok in ("right-shape", "wrong-frame-count")]


@contract("C03", "mdtraj/core/trajectory.py", "Trajectory.time|unitcell_lengths|unitcell_angles(setters)", cases=SETTER_CASES, replay="ops")
def field_setters(ctx, case):
    field, ok = case
    install(ctx)
    F, G = ctx.int("F"), ctx.int("G")
    ctx.assume(F >= 2, G >= 1, G != F)
    t, mod = TM.make_traj(ctx, F, 5)
    with_traces(t)
    before = dict(t.fields)
    n = F if ok == "right-shape" else G
    new = TArr("new_" + field, shape=(n,) if field == "time" else (n, 3))
    try:
        ctx.interp.setattr(t, field, new)
        raised = None
    except PyExc as e:
        raised = e
    priv = "_" + field
    if ok == "right-shape":
        ctx.ensure("accepted", raised is None)
        ctx.ensure("field-is-the-assigned-value", raised is None and same_value(t.fields[priv], new))
    else:
        ctx.ensure("wrong-frame-count-refused-with-ValueError", raised is not None and raised.name == "ValueError")
        ctx.ensure("refused=>field-unchanged", t.fields[priv] is before[priv])
    for k in ("_xyz", "_time", "_unitcell_lengths", "_unitcell_angles", "_rmsd_traces"):
        if k != priv:
            ctx.ensure(f"other-field-{k}-untouched", t.fields[k] is before[k])
    ctx.ensure("inv_traj:cache-clause", cache_ok(t))


@contract("C03", "mdtraj/core/trajectory.py", "Trajectory.center_coordinates(mass_weighted=True)", replay="ops")
def center_mass_weighted(ctx, case):
    """a trajectory that still carries the traces of an earlier plain centring is centred on its centre of mass: the coordinates
    move, so the cached traces must not survive (md.rmsd(precentered=True) would trust them)"""
    install(ctx)
    im = ctx.interp.import_models

    class Shift:
        def sym_getitem(self, interp, k):
            return self

    shift = Shift()
    im["mdtraj.geometry"]._attrs["distance"] = Namespace("distance", compute_center_of_mass=lambda traj: shift)
    F = ctx.int("F")
    ctx.assume(F >= 1)
    t, mod = TM.make_traj(ctx, F, 5)
    mod.globals["distance"] = im["mdtraj.geometry"]._attrs["distance"]
    with_traces(t)
    xyz_before = t.fields["_xyz"]
    n_mut = len(xyz_before.mutations)
    out = ctx.call_method(t, "center_coordinates", mass_weighted=True)
    ctx.ensure("no-exception", not out.raised)
    if out.raised:
        return
    ctx.ensure("coordinates-were-shifted", len(t.fields["_xyz"].mutations) > n_mut or t.fields["_xyz"] is not xyz_before)
    ctx.ensure("inv_traj:cache-clause(stale-traces-dropped-or-recomputed)", cache_ok(t))
    ctx.ensure("returns-self", out.value is t)


@contract("C03", "mdtraj/core/trajectory.py", "Trajectory.remove_solvent", cases=[(i, s) for i in (False, True) for s in ("some-solvent", "no-solvent")], replay="ops")
def remove_solvent(ctx, case):
    """remove_solvent = atom_slice on the non-solvent atoms: inplace=False always returns an independent trajectory (also when
    there is nothing to remove); inplace=True returns self"""
    inplace, variant = case
    install(ctx)
    F = ctx.int("F")
    ctx.assume(F >= 1)
    t, mod = TM.make_traj(ctx, F, 5)
    names = ["ALA", "ALA", "HOH", "ALA", "HOH"] if variant == "some-solvent" else ["ALA"] * 5

    class TopS(TM.TopologyTok):
        def sym_getattr(self, interp, attr):
            if attr == "atoms":
                return [Namespace("atom", name=f"A{i}", index=i, residue=Namespace("residue", name=names[i])) for i in range(5)]
            if attr == "subset":
                return lambda idx: TM.TopologyTok(len(idx) if isinstance(idx, list) else 5, "subset")
            return super().sym_getattr(interp, attr)

    t.fields["_topology"] = TopS(5, "t.top")
    mod.globals["_SOLVENT_TYPES"] = {"HOH", "NA", "CL"}
    src = dict(t.fields)
    out = ctx.call_method(t, "remove_solvent", inplace=inplace)
    ctx.ensure("no-exception", not out.raised)
    if out.raised:
        return
    r = out.value
    if inplace:
        ctx.ensure("inplace=True-returns-self", r is t)
    else:
        ctx.ensure("inplace=False:result-is-a-different-object", r is not t)
        ctx.ensure("inplace=False:result-coordinate-buffer-is-fresh", r is not t and r.fields["_xyz"].buf != src["_xyz"].buf)
        ctx.ensure("inplace=False:source-fields-untouched", all(t.fields[f] is src[f] for f in FIELDS))
    ctx.ensure("inv_traj(result):cache-clause", cache_ok(r))


@contract("C03", "mdtraj/core/trajectory.py", "Trajectory.__getitem__|__add__(delegation)", cases=["getitem", "add"], replay="ops")
def delegations(ctx, case):
    """t[key] is t.slice(key) with copy=True, a + b is a.join(b), restrict_atoms(idx, inplace) is atom_slice(idx, inplace): the
    operators inherit the contracts of the methods they delegate to (checked as: exactly that one call, result returned)"""
    install(ctx)
    F = ctx.int("F")
    ctx.assume(F >= 2)
    t, mod = TM.make_traj(ctx, F, 5)
    cls = mod.globals["Trajectory"]
    calls = []
    marker = object()

    def rec(name):
        def model(interp, args, kwargs):
            calls.append((name, args[1:], dict(kwargs)))
            return marker
        return model

    for m in ("slice", "join", "atom_slice"):
        ctx.interp.call_models[f"{mod.name}.Trajectory.{m}"] = rec(m)
    if case == "getitem":
        key = ctx.int("key")
        out = ctx.call_method(t, "__getitem__", key)
        ok = calls == [("slice", [key], {})] or (len(calls) == 1 and calls[0][0] == "slice" and calls[0][1] == [key] and calls[0][2].get("copy", True) is True)
    elif case == "add":
        other, _ = TM.make_traj(ctx, F, 5, name="o")
        out = ctx.call_method(t, "__add__", other)
        ok = len(calls) == 1 and calls[0][0] == "join" and calls[0][1] == [other] and not calls[0][2]
    else:
        idx = TArr("idx", shape=(2,), dtype="int32")
        inplace = ctx.bool("inplace")
        out = ctx.call_method(t, "restrict_atoms", idx, inplace=inplace)
        ok = len(calls) == 1 and calls[0][0] == "atom_slice" and calls[0][1] == [idx] and calls[0][2].get("inplace") is inplace
    ctx.ensure("no-exception", not out.raised)
    ctx.ensure("delegates-with-the-same-arguments-exactly-once", ok)
    ctx.ensure("returns-the-delegate's-result", (not out.raised) and out.value is marker)
