"""C13 / C08 -- the Shrake-Rupley kernel `asa_frame` and its frame driver `sasa` (mdtraj/geometry/src/sasa.cpp).

`asa_frame` is executed from clang's AST with SYMBOLIC n_atoms and n_sphere_points; all five loops are cut at inductive
invariants, so the clauses hold for every atom count, every point count and every iteration:

  neighbour list (loop 1)   every stored entry is another atom, in range, whose expanded sphere overlaps atom i's
                            (arbitrary probe slot M);  every such atom q is stored, at slot rank(i,q) (arbitrary probe atom Q,
                            rank = spec function `number of overlapping other atoms with smaller index`)
  centred points (loop 2)   csp[3p+k] = x_i[k] + R_i * s_p[k]                              (arbitrary probe point)
  neighbour scan (loop 4)   cyclic scan starting at the cached slot: after t steps the slots k0, k0+1, .. (mod n_nb) have
                            been tested and did not contain the point (probe slot = rank(i,Q)); the scan visits EVERY slot
  point decision (loop 3)   rejected  => the point is strictly inside a listed atom idx != i          (witness)
                            accepted  => the point is inside NO other atom Q (arbitrary Q): listed ones by the scan
                                         invariant, unlisted ones by lemma PF (a sphere that does not overlap atom i's sphere
                                         contains none of its points; needs |s_p| = 1 and radii >= 0 -- preconditions)
                            hence  is_accessible  <=>  ACC(i,p) := forall q != i. point p of atom i not inside atom q
                            (forall-introduction on the arbitrary Q, exists-introduction on the witness -- the only two
                            steps done outside the solver) and  areas[i] = #{p' < p : ACC(i,p')}
  per atom (loop 0)         selected:   areas[i] * n_sphere_points = 4 pi R_i^2 * #{p : ACC(i,p)}   -- whatever `areas`
                                        held on entry (the caller re-uses the buffer for every frame a thread handles: C08)
                            unselected: nothing written at all
                            only areas[i] and the two work buffers are written; coordinates, radii, points, mask untouched

`sasa`: frame loop with `asa_frame` replaced by the contract above (areas of selected atoms are a function of that frame's
coordinates only, unselected cells keep their value) -- see the second contract.
Float arithmetic is real arithmetic here (the property excludes points within 1e-5 nm of a surface).
"""
import z3

from mdvc import core
from mdvc.cinterp import CLoopSpec, Ptr, Region
from mdvc.core import SInt, SReal, rterm, term
from mdvc.verify import contract

INC = dict(include=("mdtraj/geometry/include",))
PI_LIT = z3.RealVal("3.14159265358979323846")


class Spec:
    """spec-level formulas over the INPUT arrays"""

    def __init__(self, frame, radii, sp, base=0):
        self.frame, self.radii, self.sp, self.base = frame, radii, sp, base

    def X(self, a, k):
        return z3.Select(self.frame.mem0, self.base + 3 * term(a) + k)

    def Rad(self, a):
        return z3.Select(self.radii.mem0, term(a))

    def S(self, p, k):
        return z3.Select(self.sp.mem0, 3 * term(p) + k)

    def d2(self, a, b):
        return sum((self.X(a, k) - self.X(b, k)) * (self.X(a, k) - self.X(b, k)) for k in range(3))

    # `near` and `inside` are OPAQUE spec predicates in the loop-level reasoning (uninterpreted NEAR / INSIDE); their
    # definitions are revealed (assumed as definition instances) only at the arguments where the code evaluates the test
    # and where lemma PF is applied.  This keeps the invariants free of nonlinear terms under array reads.
    def near_def(self, i, q):
        s = self.Rad(i) + self.Rad(q)
        return self.d2(i, q) < s * s

    def near(self, i, q):
        return NEAR(term(i), term(q))

    def reveal_near(self, i, q):
        return NEAR(term(i), term(q)) == self.near_def(i, q)

    def point(self, i, p, k):
        return self.X(i, k) + self.Rad(i) * self.S(p, k)

    def inside(self, i, p, q):
        return INSIDE(term(i), term(p), term(q))

    def reveal_inside(self, i, p, q):
        return INSIDE(term(i), term(p), term(q)) == self.inside_def(i, p, q)

    def inside_def(self, i, p, q):
        return sum((self.point(i, p, k) - self.X(q, k)) * (self.point(i, p, k) - self.X(q, k)) for k in range(3)) < self.Rad(q) * self.Rad(q)


NEAR = z3.Function("NEAR", z3.IntSort(), z3.IntSort(), z3.BoolSort())  # NEAR(i,q) := |x_i - x_q|^2 < (R_i + R_q)^2
INSIDE = z3.Function("INSIDE", z3.IntSort(), z3.IntSort(), z3.IntSort(), z3.BoolSort())  # INSIDE(i,p,q) := |x_i + R_i s_p - x_q|^2 < R_q^2
RANK = z3.Function("rank", z3.IntSort(), z3.IntSort(), z3.IntSort())  # rank(i, j) = #{q < j : q != i and near(i, q)}
CNT = z3.Function("cnt", z3.IntSort(), z3.IntSort(), z3.IntSort())  # cnt(i, p) = #{p' < p : ACC(i, p')}
ACC = z3.Function("ACC", z3.IntSort(), z3.IntSort(), z3.BoolSort())  # ACC(i,p) := forall q != i: not inside(i, p, q)


def asa_frame_contract(ctx, c, R, n, P, base=0, tag=""):
    """installs the loop specifications of asa_frame; returns the per-atom ghost used by callers"""
    ex = ctx.ex
    sp = Spec(R["frame"], R["radii"], R["sp"], base)
    areas, nb, csp, mask = R["areas"], R["nb"], R["csp"], R["mask"]
    I, J1, J2, J3, K = (ctx.int(x + tag) for x in ("I", "J1", "J2", "J3", "K"))
    M, Q, PP = ctx.int("M" + tag), ctx.int("Q" + tag), ctx.int("PP" + tag)  # arbitrary probes: slot, atom, point
    NN, KC = ctx.int("NN" + tag), ctx.int("KC" + tag)
    D4, A4 = ctx.int("D4" + tag), ctx.int("A4" + tag)
    nT, PT = term(n), term(P)
    g = {}

    validQ = z3.And(Q.t >= 0, Q.t < nT, Q.t != I.t)

    # ---- lemmas -------------------------------------------------------------------------------
    MULT0 = ctx.lemma("MULT0:x*n=y,-n<y<n,n>0=>y=0", 3, lambda x, nn, y: z3.Implies(z3.And(x * nn == y, y < nn, -nn < y, nn > 0), y == 0), sort="int")

    def pfa_stmt(dx, dy, dz, sx, sy, sz, ri):
        return z3.Implies(sx * sx + sy * sy + sz * sz == 1,
                          (dx + ri * sx) * (dx + ri * sx) + (dy + ri * sy) * (dy + ri * sy) + (dz + ri * sz) * (dz + ri * sz)
                          == dx * dx + dy * dy + dz * dz + 2 * ri * (dx * sx + dy * sy + dz * sz) + ri * ri)
    PFa = ctx.lemma("PFa:|d+r*s|^2=|d|^2+2r(d.s)+r^2-for-unit-s", 7, pfa_stmt)
    # PFb: t = |d| (square-root witness), ds = d.s with ds^2 <= D (Cauchy-Schwarz, lemma CS), E = |d + ri*s|^2
    PFb = ctx.lemma("PFb:|d|>=ri+rq=>|d|^2+2ri(d.s)+ri^2>=rq^2", 6, lambda ri, rq, t, D, ds, E: z3.Implies(
        z3.And(ri >= 0, rq >= 0, t >= 0, t * t == D, ds * ds <= D, D >= (ri + rq) * (ri + rq), E == D + 2 * ri * ds + ri * ri), E >= rq * rq))

    def PF(dx, dy, dz, sx, sy, sz, ri, rq, t):
        PFa(dx, dy, dz, sx, sy, sz, ri)
        PFb(ri, rq, t, dx * dx + dy * dy + dz * dz, dx * sx + dy * sy + dz * sz,
            (dx + ri * sx) * (dx + ri * sx) + (dy + ri * sy) * (dy + ri * sy) + (dz + ri * sz) * (dz + ri * sz))
    CS = ctx.lemma("CS:(d.s)^2<=|d|^2|s|^2", 6, lambda dx, dy, dz, sx, sy, sz: (dx * sx + dy * sy + dz * sz) * (dx * sx + dy * sy + dz * sz)
                   <= (dx * dx + dy * dy + dz * dz) * (sx * sx + sy * sy + sz * sz))

    # ---- universally proved facts, re-used on instances ----------------------------------------
    def entries(m, j, nn, mem):
        e = z3.Select(mem, m)
        return z3.Implies(z3.And(m >= 0, m < nn), z3.And(e >= 0, e < j, e != I.t, sp.near(I, e)))

    def listed(q, j, nn, mem):
        r = RANK(I.t, q)
        return z3.Implies(z3.And(q >= 0, q < j, q != I.t, sp.near(I, q)), z3.And(r >= 0, r < nn, z3.Select(mem, r) == q))

    def centred(p, j, mem):
        return z3.Implies(z3.And(p >= 0, p < j), z3.And(*[z3.Select(mem, 3 * p + k) == sp.point(I, p, k) for k in range(3)]))

    # ---- loop 0: atoms -------------------------------------------------------------------------
    def l0_havoc(interp, env, gh):
        interp.setvar(env, "i", I)
        for r, nm in ((areas, "areas@i"), (nb, "nb@i"), (csp, "csp@i")):
            r.mem = z3.Array(core.fresh_name(nm + tag), z3.IntSort(), z3.RealSort() if r.sort == "real" else z3.IntSort())
            r.writes.clear()
        g["areas_at_iteration_start"] = areas.mem
        return [I.t >= 0]

    def l0_inv(interp, env, gh):
        i = interp.getvar(env, "i")
        return [("0<=i<=n_atoms", z3.And(term(i) >= 0, term(i) <= nT))]

    def l0_end(interp, env, gh):
        ctx.cover("atom-iteration" + tag)
        for r in ("frame", "radii", "sp", "mask"):
            ex.require(f"frame:{r}-not-written", z3.BoolVal(not R[r].writes))
        ex.require("frame:only-areas[i]-written-in-the-output", z3.And(*[w[0] == I.t for w in areas.writes]) if areas.writes else z3.BoolVal(True))
        selected = z3.Select(mask.mem0, I.t) != 0
        ex.require("unselected-atom:nothing-written-to-areas", z3.Or(selected, z3.BoolVal(not areas.writes)))
        if areas.writes:
            ctx.cover("selected-atom" + tag)
            a = z3.Select(areas.mem, I.t)
            const = rterm(interp.getvar(env, "constant"))
            ex.require("constant*n_points=4*pi(to-double-precision)", z3.And(const * z3.ToReal(PT) - 4 * PI_LIT <= z3.RealVal("1e-14"), 4 * PI_LIT - const * z3.ToReal(PT) <= z3.RealVal("1e-14")))
            ex.require("selected-atom:areas[i]=constant*R_i^2*#accessible-points(independent-of-the-old-buffer)",
                       z3.Implies(selected, a == const * sp.Rad(I) * sp.Rad(I) * z3.ToReal(CNT(I.t, PT))))
        else:
            ctx.cover("unselected-atom" + tag)

    c.loop_specs[("asa_frame", 0)] = CLoopSpec(l0_havoc, l0_inv, at_end=l0_end, exit_state=lambda interp, env, gh: interp.setvar(env, "i", SInt(nT)))

    # ---- loop 1: neighbour list ------------------------------------------------------------------
    def l1_havoc(interp, env, gh):
        interp.setvar(env, "j", J1)
        interp.setvar(env, "n_neighbor_indices", NN)
        nb.mem = z3.Array(core.fresh_name("nb@j" + tag), z3.IntSort(), z3.IntSort())
        # precondition instance: no two atoms closer than sqrt(1.1e-10) nm (the kernel exits the process below (float)1e-10f); definition of rank unfolded at J1
        return [J1.t >= 0,
                z3.Implies(z3.And(J1.t != I.t, J1.t < nT), sp.d2(I, J1) >= z3.RealVal("1.1e-10")),
                sp.reveal_near(I, J1),  # definition instance at the atom tested in this iteration
                RANK(I.t, 0) == 0,
                RANK(I.t, J1.t + 1) == RANK(I.t, J1.t) + z3.If(z3.And(J1.t != I.t, sp.near(I, J1)), 1, 0)]

    def l1_inv(interp, env, gh):
        j, nn = term(interp.getvar(env, "j")), term(interp.getvar(env, "n_neighbor_indices"))
        out = [("0<=j<=n_atoms", z3.And(j >= 0, j <= nT)), ("n_neighbours=rank(i,j)", nn == RANK(I.t, j)), ("0<=n_neighbours<=j", z3.And(nn >= 0, nn <= j)),
               ("every-entry-is-an-overlapping-other-atom[probe-slot]", entries(M.t, j, nn, nb.mem)),
               ("every-overlapping-other-atom-is-listed-at-its-rank[probe-atom]", listed(Q.t, j, nn, nb.mem))]
        if gh.get("entry"):
            ex.assume(RANK(I.t, 0) == 0)
        return out

    def l1_exit(interp, env, gh):
        interp.setvar(env, "j", SInt(nT))
        mem, nn = nb.mem, term(interp.getvar(env, "n_neighbor_indices"))
        g["nbmem"], g["nn"] = mem, nn
        g["entries"] = lambda m: entries(term(m), nT, nn, mem)
        g["listed"] = lambda q: listed(term(q), nT, nn, mem)

    c.loop_specs[("asa_frame", 1)] = CLoopSpec(l1_havoc, l1_inv, exit_state=l1_exit)

    # ---- loop 2: centred sphere points -----------------------------------------------------------
    def l2_havoc(interp, env, gh):
        interp.setvar(env, "j", J2)
        csp.mem = z3.Array(core.fresh_name("csp@j" + tag), z3.IntSort(), z3.RealSort())
        return [J2.t >= 0]

    def l2_inv(interp, env, gh):
        j = term(interp.getvar(env, "j"))
        return [("0<=j<=n_points", z3.And(j >= 0, j <= PT)), ("centred-point=x_i+R_i*s_p[probe-point]", centred(PP.t, j, csp.mem))]

    def l2_exit(interp, env, gh):
        interp.setvar(env, "j", SInt(PT))
        mem = csp.mem
        g["centred"] = lambda p: centred(term(p), PT, mem)

    c.loop_specs[("asa_frame", 2)] = CLoopSpec(l2_havoc, l2_inv, exit_state=l2_exit)

    # ---- loop 3: sphere points -------------------------------------------------------------------
    def l3_havoc(interp, env, gh):
        interp.setvar(env, "j", J3)
        interp.setvar(env, "k_closest_neighbor", KC)
        areas.mem = z3.Store(areas.mem, I.t, z3.ToReal(CNT(I.t, J3.t)))
        # instance (at the arbitrary point J3 < n_points) of the fact proved by loop 2, installed as stores so that reads of the
        # centred point simplify to x_i + R_i*s_p; undone on the exit path (J3 = n_points), where it would not be an instance
        g["csp_plain"] = csp.mem
        for k in range(3):
            csp.mem = z3.Store(csp.mem, 3 * J3.t + k, sp.point(I, J3, k))
        nn = g["nn"]
        S = RANK(I.t, Q.t)
        sx, sy, sz = (sp.S(J3, k) for k in range(3))
        return [J3.t >= 0, CNT(I.t, 0) == 0,
                g["listed"](Q),  # instance at the probe atom
                # preconditions (instances): sphere points are unit vectors, radii are non-negative
                z3.Implies(J3.t < PT, sx * sx + sy * sy + sz * sz == 1), sp.Rad(I) >= 0, z3.Implies(validQ, sp.Rad(Q) >= 0),
                # Euclidean division witness: the offset D4 at which the cyclic scan reaches slot S = rank(i,Q)
                z3.Implies(z3.And(nn > 0, S >= 0, S < nn), z3.And(D4.t >= 0, D4.t < nn, KC.t + D4.t == S + A4.t * nn))]

    def l3_inv(interp, env, gh):
        j = term(interp.getvar(env, "j"))
        kc = term(interp.getvar(env, "k_closest_neighbor"))
        if gh.get("entry"):
            ex.assume(CNT(I.t, 0) == 0)
        return [("0<=j<=n_points", z3.And(j >= 0, j <= PT)), ("k_closest_neighbor>=0", kc >= 0),
                ("areas[i]=#accessible-points-so-far", z3.Select(areas.mem, I.t) == z3.ToReal(CNT(I.t, j)))]

    def l3_end(interp, env, gh):
        acc = interp.getvar(env, "is_accessible")
        if not isinstance(acc, bool):
            ex.require("point-decision-is-definite-on-every-path", z3.BoolVal(False))
            return
        nn, mem = g["nn"], g["nbmem"]
        if acc:
            ctx.cover("point-accepted" + tag)
            # listed atoms: by the scan invariant (stated before any definition is revealed: pure EUF + linear integers)
            ex.require("accepted=>point-not-inside-any-listed-atom[probe-atom]", z3.Implies(z3.And(validQ, sp.near(I, Q)), z3.Not(sp.inside(I, J3, Q))))
            # unlisted atoms: lemma PF with the square-root witness t = |x_i - x_Q| (assumed to exist: sqrt of a sum of squares)
            d = [sp.X(I, k) - sp.X(Q, k) for k in range(3)]
            s = [sp.S(J3, k) for k in range(3)]
            t = z3.Real(core.fresh_name("t|d|" + tag))
            ex.assume(z3.And(t >= 0, t * t == sum(x * x for x in d)))
            ex.assume(sp.reveal_near(I, Q))
            ex.assume(sp.reveal_inside(I, J3, Q))
            CS(*d, *s)
            PF(*d, *s, sp.Rad(I), sp.Rad(Q), t)
            ex.require("accepted=>point-not-inside-any-unlisted-atom[probe-atom](prefilter-is-sound)", z3.Implies(z3.And(validQ, z3.Not(sp.near(I, Q))), z3.Not(sp.inside(I, J3, Q))))
        else:
            ctx.cover("point-rejected" + tag)
            kp = term(interp.getvar(env, "k_prime"))
            idx = z3.Select(mem, kp)
            ex.require("rejected=>point-strictly-inside-a-listed-other-atom[witness]",
                       z3.And(kp >= 0, kp < nn, idx >= 0, idx < nT, idx != I.t, sp.inside(I, J3, idx)))
        # is_accessible <=> ACC(i,p): forall-introduction / exists-introduction over the two clauses above
        ex.assume(ACC(I.t, J3.t) == z3.BoolVal(acc))
        ex.assume(CNT(I.t, J3.t + 1) == CNT(I.t, J3.t) + z3.If(ACC(I.t, J3.t), 1, 0))

    def l3_exit(interp, env, gh):
        interp.setvar(env, "j", SInt(PT))
        csp.mem = g["csp_plain"]

    c.loop_specs[("asa_frame", 3)] = CLoopSpec(l3_havoc, l3_inv, at_end=l3_end, exit_state=l3_exit)

    # ---- loop 4: cyclic scan of the neighbour list -------------------------------------------------
    def l4_havoc(interp, env, gh):
        interp.setvar(env, "k", K)
        # the loop assigns is_accessible and k_closest_neighbor only on the iteration that breaks out of it: at the head of an
        # arbitrary iteration they still have their values from before the loop (stated by the invariant below)
        interp.setvar(env, "is_accessible", True)
        interp.setvar(env, "k_closest_neighbor", KC)
        return []

    def l4_inv(interp, env, gh):
        k = term(interp.getvar(env, "k"))
        acc = interp.getvar(env, "is_accessible")
        nn = g["nn"]
        S = RANK(I.t, Q.t)
        return [("k0<=k<=k0+n_neighbours", z3.And(k >= KC.t, k <= KC.t + nn)), ("is_accessible-still-true", z3.BoolVal(acc is True)),
                ("slots-visited-so-far-do-not-contain-the-point[slot-of-probe-atom]",
                 z3.Implies(z3.And(validQ, sp.near(I, Q), k - KC.t > D4.t), z3.Not(sp.inside(I, J3, Q))))]

    c.loop_specs[("asa_frame", 4)] = CLoopSpec(l4_havoc, l4_inv)

    def decl_hook(interp, env, name, v):
        if name == "k_prime" and "entries" in g:
            kp = term(v)
            ex.assume(g["entries"](kp))  # instance of the fact proved for an arbitrary slot by loop 1
            k, nn = term(interp.getvar(env, "k")), g["nn"]
            S = RANK(I.t, Q.t)
            # k = q*nn + k_prime (C remainder of non-negative operands); if k = k0 + D4 = S + A4*nn then k_prime = S
            qk = z3.Int(core.fresh_name("qk" + tag))
            ex.require("scan:k_prime=k-mod-n_neighbours", z3.And(kp >= 0, kp < nn))
            ex.assume(k == qk * nn + kp)
            MULT0(A4.t - qk, nn, kp - S)
            reach = z3.Implies(z3.And(validQ, sp.near(I, Q), k - KC.t == D4.t), z3.And(kp == S, z3.Select(g["nbmem"], kp) == Q.t))
            ex.require("scan:step-D4-tests-the-slot-of-the-probe-atom", reach)
            ex.assume(reach)
        if name == "index" and "entries" in g:
            ex.assume(sp.reveal_inside(I, J3, v))  # definition instance at the atom tested in this scan step
        return v

    c.decl_hook = decl_hook
    # proof-by-cases hints: the slot written in this iteration vs an older one; the scan step that reaches the probe slot vs another
    ctx.split_hint("every-entry-is-an-overlapping-other-atom", M.t == NN.t)
    ctx.split_hint("slots-visited-so-far-do-not-contain-the-point", K.t - KC.t == D4.t)
    return dict(I=I, spec=sp, g=g)


def _regions():
    R = dict(frame=Region("frame"), radii=Region("radii"), sp=Region("sphere_points"), nb=Region("neighbor_indices", "int"),
             csp=Region("centered_sphere_points"), mask=Region("atom_selection_mask", "int"), areas=Region("areas"))
    for r in R.values():
        r.mem0 = r.mem
    return R


def asa_frame(ctx, case=None):
    c = ctx.load_c("mdtraj/geometry/src/sasa.cpp", ["asa_frame"], **INC)
    R = _regions()
    n, P = ctx.int("n_atoms"), ctx.int("n_sphere_points")
    ctx.assume(n >= 1, P >= 1)
    asa_frame_contract(ctx, c, R, n, P)
    out = ctx.ccall("asa_frame", Ptr(R["frame"], 0), n, Ptr(R["radii"], 0), Ptr(R["sp"], 0), P, Ptr(R["nb"], 0), Ptr(R["csp"], 0),
                    Ptr(R["mask"], 0), Ptr(R["areas"], 0))
    ctx.ensure("never-exits-the-process(no-coincident-atoms)", out.exc is None)
    ctx.cover("finished")


COVERS = ["atom-iteration", "selected-atom", "unselected-atom", "point-accepted", "point-rejected", "finished"]
for _p in ("C13", "C08"):
    contract(_p, "mdtraj/geometry/src/sasa.cpp", "asa_frame", lang="c", replay="sasa", covers=COVERS, max_paths=400)(asa_frame)


# =====================================================================================================
# the frame driver `sasa`: asa_frame and generate_sphere_points are replaced by their contracts
AREAF = z3.Function("AREAF", z3.IntSort(), z3.IntSort(), z3.RealSort())  # asa_frame's postcondition value for (frame, atom)
GSUM = z3.Function("GSUM", z3.IntSort(), z3.IntSort(), z3.IntSort(), z3.RealSort())  # GSUM(i,g,j) = sum over selected atoms a<j of group g


def sasa_driver(ctx, case=None):
    """per frame i and group g:  out[i*n_groups+g] = out_before[...] + sum_{a : mapping[a]=g, mask[a]!=0} AREAF(i,a)
    where AREAF(i,a) is the value asa_frame's contract gives for the frame at xyz + 3*n_atoms*i (a function of that frame's
    coordinates, the radii and the point set only).  asa_frame is entered with ARBITRARY contents of the per-thread scratch
    buffers (whatever earlier frames of whatever thread left there), which is what makes the statement schedule-independent:
    `#pragma omp` is not interpreted, the sequential loop is the schedule in which one thread handles all frames."""
    ex = ctx.ex
    c = ctx.load_c("mdtraj/geometry/src/sasa.cpp", ["sasa"], **INC)
    R = dict(xyz=Region("xyzlist"), radii=Region("atom_radii"), mapping=Region("atom_mapping", "int"), mask=Region("atom_selection_mask", "int"),
             out=Region("out"))
    for r in R.values():
        r.mem0 = r.mem
    out, mapping, mask = R["out"], R["mapping"], R["mask"]
    nf, n, P, ng = ctx.int("n_frames"), ctx.int("n_atoms"), ctx.int("n_sphere_points"), ctx.int("n_groups")
    ctx.assume(nf >= 0, n >= 1, P >= 1, ng >= 1)
    nT, ngT = term(n), term(ng)
    I, J, G, A0, C0 = ctx.int("I"), ctx.int("J"), ctx.int("G"), ctx.int("A0"), ctx.int("C0")  # frame, atom; probes: group, atom, cell
    g = {"asa_calls": 0}

    def map_ok(a):  # precondition: groups are 0..n_groups-1
        m = z3.Select(mapping.mem0, a)
        return z3.And(m >= 0, m < ngT)

    def gsp_model(interp, args):
        ptr, npts = args
        ex.require("generate_sphere_points:gets-n_sphere_points", term(npts) == term(P))
        ex.require("generate_sphere_points:fills-a-fresh-buffer", z3.BoolVal(isinstance(ptr, Ptr) and getattr(ptr.region, "alloc", None) is not None and ptr.region not in R.values()))
        ptr.region.mem = z3.Array(core.fresh_name("golden_spiral"), z3.IntSort(), z3.RealSort())
        ptr.region.spiral = term(npts)
        g["sp_region"] = ptr.region
        return None

    def asa_model(interp, args):
        frame, n_atoms, radii, sphere_points, nsp, nb, csp, msk, areas = args
        g["asa_calls"] += 1
        i = term(g["frame_index"])
        # preconditions of the asa_frame contract, checked at the call site
        ex.require("asa_frame:gets-this-frame's-coordinates(xyz+3*n_atoms*i)", z3.And(z3.BoolVal(frame.region is R["xyz"]), term(frame.off) == 3 * nT * i))
        ex.require("asa_frame:gets-n_atoms,radii,mask", z3.And(term(n_atoms) == nT, z3.BoolVal(radii.region is R["radii"] and msk.region is mask), term(radii.off) == 0, term(msk.off) == 0))
        ex.require("asa_frame:gets-the-generated-point-set", z3.And(z3.BoolVal(sphere_points.region is g.get("sp_region")), term(sphere_points.off) == 0, term(nsp) == term(P)))
        scratch = [nb.region, csp.region, areas.region]
        ex.require("asa_frame:scratch-buffers-are-this-call's-own-allocations(distinct,not-inputs,not-out)",
                   z3.BoolVal(len({id(x) for x in scratch}) == 3 and all(getattr(x, "alloc", None) is not None and x not in R.values() and x is not g.get("sp_region") for x in scratch)))
        # postcondition: selected atoms get AREAF(i, a) whatever the buffer held, unselected cells keep their value
        old = areas.region.mem
        new = z3.Array(core.fresh_name("areas_after"), z3.IntSort(), z3.RealSort())
        areas.region.mem = new
        for r in (nb.region, csp.region):
            r.mem = z3.Array(core.fresh_name("scratch_after"), z3.IntSort(), z3.RealSort() if r.sort == "real" else z3.IntSort())
        g["areas_post"] = lambda a: z3.Select(new, a) == z3.If(z3.Select(mask.mem0, a) != 0, AREAF(i, a), z3.Select(old, a))
        g["buf_region"] = areas.region
        return None

    c.call_models["generate_sphere_points"] = gsp_model
    c.call_models["asa_frame"] = asa_model

    def buf_zero(a, mem):
        return z3.Implies(z3.Select(mask.mem0, a) == 0, z3.Select(mem, a) == 0)

    def untouched(cell, i, mem):
        return z3.Implies(cell >= i * ngT, z3.Select(mem, cell) == z3.Select(out.mem0, cell))

    # ---- loop 0: frames ---------------------------------------------------------------------------
    def o_havoc(interp, env, gh):
        interp.setvar(env, "i", I)
        buf = interp.getvar(env, "outframebuffer").region
        buf.mem = z3.Array(core.fresh_name("buffer@frame"), z3.IntSort(), z3.RealSort())
        out.mem = z3.Array(core.fresh_name("out@frame"), z3.IntSort(), z3.RealSort())
        out.writes.clear()
        g["buf_mem_at_frame_start"], g["out_mem_at_frame_start"] = buf.mem, out.mem
        g["frame_index"] = I
        return [I.t >= 0]

    def o_inv(interp, env, gh):
        i = term(interp.getvar(env, "i"))
        buf = interp.getvar(env, "outframebuffer").region
        g.setdefault("frame_index", interp.getvar(env, "i"))
        return [("0<=i<=n_frames", z3.And(i >= 0, i <= term(nf))),
                ("buffer-cells-of-unselected-atoms-stay-zero[probe-atom]", buf_zero(A0.t, buf.mem)),
                ("rows-of-later-frames-untouched[probe-cell]", untouched(C0.t, i, out.mem))]

    def o_end(interp, env, gh):
        ctx.cover("frame-iteration")
        ex.require("asa_frame-called-exactly-once-per-frame", z3.BoolVal(g["asa_calls"] == 1))
        for nm in ("xyz", "radii", "mapping", "mask"):
            ex.require(f"frame:{nm}-not-written", z3.BoolVal(not R[nm].writes))
        cell = I.t * ngT + G.t
        ex.require("out[i][g]=out_before+sum-of-the-areas-of-the-selected-atoms-of-group-g-in-frame-i[probe-group]",
                   z3.Implies(z3.And(G.t >= 0, G.t < ngT), z3.Select(out.mem, cell) == z3.Select(out.mem0, cell) + GSUM(I.t, G.t, nT)))

    c.loop_specs[("sasa", 0)] = CLoopSpec(o_havoc, o_inv, at_end=o_end, exit_state=lambda interp, env, gh: interp.setvar(env, "i", SInt(term(nf))))

    # ---- loop 1: accumulate atoms into groups -------------------------------------------------------
    def i_havoc(interp, env, gh):
        interp.setvar(env, "j", J)
        out.mem = z3.Array(core.fresh_name("out@atom"), z3.IntSort(), z3.RealSort())
        bufmem0 = g["buf_mem_at_frame_start"]
        sel = z3.Select(mask.mem0, J.t) != 0
        return [J.t >= 0, GSUM(I.t, G.t, 0) == 0,
                z3.Implies(J.t < nT, map_ok(J.t)),  # precondition instance
                g["areas_post"](J.t),  # asa_frame's postcondition at atom J
                buf_zero(J.t, bufmem0),  # instance of the frame-loop invariant proved for an arbitrary atom
                untouched(I.t * ngT + G.t, I.t, g["out_mem_at_frame_start"]),  # instance at the probe group's cell
                GSUM(I.t, G.t, J.t + 1) == GSUM(I.t, G.t, J.t) + z3.If(z3.And(z3.Select(mapping.mem0, J.t) == G.t, sel), AREAF(I.t, J.t), 0)]

    def i_inv(interp, env, gh):
        j = term(interp.getvar(env, "j"))
        cell = I.t * ngT + G.t
        start = g["out_mem_at_frame_start"]
        if gh.get("entry"):
            ex.assume(GSUM(I.t, G.t, 0) == 0)
            ex.assume(g["areas_post"](A0.t))
        return [("0<=j<=n_atoms", z3.And(j >= 0, j <= nT)),
                ("out[i][g]=value-at-frame-start+partial-sum[probe-group]", z3.Implies(z3.And(G.t >= 0, G.t < ngT), z3.Select(out.mem, cell) == z3.Select(start, cell) + GSUM(I.t, G.t, j))),
                ("cells-outside-row-i-untouched[probe-cell]", z3.Implies(z3.Or(C0.t < I.t * ngT, C0.t >= (I.t + 1) * ngT), z3.Select(out.mem, C0.t) == z3.Select(start, C0.t)))]

    def i_exit(interp, env, gh):
        interp.setvar(env, "j", SInt(nT))
        ex.assume(untouched(I.t * ngT + G.t, I.t, g["out_mem_at_frame_start"]))
        ex.assume(untouched(C0.t, I.t, g["out_mem_at_frame_start"]))

    c.loop_specs[("sasa", 1)] = CLoopSpec(i_havoc, i_inv, exit_state=i_exit)

    o = ctx.ccall("sasa", nf, n, Ptr(R["xyz"], 0), Ptr(R["radii"], 0), P, Ptr(mapping, 0), Ptr(mask, 0), ng, Ptr(out, 0))
    ctx.ensure("returns-normally", o.exc is None)
    ctx.cover("finished")


for _p in ("C13", "C08"):
    contract(_p, "mdtraj/geometry/src/sasa.cpp", "sasa", lang="c", replay="sasa", covers=["frame-iteration", "finished"], max_paths=200)(sasa_driver)


# =====================================================================================================
# the point set: golden-section spiral, unit vectors (the precondition the asa_frame contract relies on)
def golden_spiral(ctx, case=None):
    ex = ctx.ex
    c = ctx.load_c("mdtraj/geometry/src/sasa.cpp", ["generate_sphere_points"], **INC)
    sp = Region("sphere_points")
    sp.mem0 = sp.mem
    n = ctx.int("n_points")
    ctx.assume(n >= 1)
    I = ctx.int("I")
    nT = term(n)
    from mdvc import npreal

    def havoc(interp, env, gh):
        interp.setvar(env, "i", I)
        sp.writes.clear()
        return [I.t >= 0]

    def inv(interp, env, gh):
        i = term(interp.getvar(env, "i"))
        return [("0<=i<=n_points", z3.And(i >= 0, i <= nT))]

    def at_end(interp, env, gh):
        ctx.cover("point-iteration")
        w = sp.writes
        ex.require("exactly-the-three-cells-of-point-i-written", z3.BoolVal(len(w) == 3))
        if len(w) != 3:
            return
        for k in range(3):
            ex.require(f"cell[{k}]-is-3*i+{k}", w[k][0] == 3 * I.t + k)
        x, y, z = (w[k][1] for k in range(3))
        iR, nR = z3.ToReal(I.t), z3.ToReal(nT)
        ex.require("y_i=(2i+1)/n-1(points-equidistant-in-height)", y * nR == 2 * iR + 1 - nR)
        ex.require("-1<y_i<1", z3.And(y > -1, y < 1))
        inc = rterm(interp.getvar(env, "inc"))
        golden = z3.RealVal("3.14159265358979323846") * (3 - z3.RealVal("2.23606797749978969641"))
        ex.require("increment=pi*(3-sqrt5)(golden-angle,to-single-precision)", z3.And(inc - golden <= z3.RealVal("1e-6"), golden - inc <= z3.RealVal("1e-6")))
        phi = iR * inc
        rr = npreal.SQRT(1 - y * y)
        ex.require("x_i=cos(i*inc)*sqrt(1-y^2)", x == npreal.COS(phi) * rr)
        ex.require("z_i=sin(i*inc)*sqrt(1-y^2)", z == npreal.SIN(phi) * rr)
        ex.require("unit-vector:x^2+y^2+z^2=1", x * x + y * y + z * z == 1)

    c.loop_specs[("generate_sphere_points", 0)] = CLoopSpec(havoc, inv, at_end=at_end, exit_state=lambda interp, env, gh: interp.setvar(env, "i", SInt(nT)))
    o = ctx.ccall("generate_sphere_points", Ptr(sp, 0), n)
    ctx.ensure("returns-normally", o.exc is None)
    ctx.cover("finished")


contract("C13", "mdtraj/geometry/src/sasa.cpp", "generate_sphere_points", lang="c", replay="sasa", covers=["point-iteration", "finished"], max_paths=50)(golden_spiral)


# =====================================================================================================
# shrake_rupley (mdtraj/geometry/sasa.py): what the Python wrapper hands to the kernel and how it initialises / returns the output
def shrake_rupley_py(ctx, case):
    """radii = table[element] (+ change_radii) + probe_radius; atom->group mapping (atom mode: identity, residue mode: residue index);
    selection mask from atom_indices; output starts at 0 for groups with a selected atom and at -1 for the others (so unselected atoms /
    residues without selected atoms are reported as -1: the kernel only ever adds to groups of selected atoms)."""
    import numpy as np
    from mdvc import npobj
    from mdvc.pyinterp import Namespace

    mode, sel = case
    ex = ctx.ex
    interp = ctx.interp
    interp.import_models["numpy"] = npobj.NumpyO()
    calls = []

    def _sasa(xyz, radii, n_sphere_points, mapping, mask, out):
        calls.append(dict(xyz=xyz, radii=np.array(radii, dtype=object), nsp=n_sphere_points, mapping=np.array(mapping), mask=np.array(mask), out0=np.array(out, dtype=object).copy()))

    interp.import_models["mdtraj.geometry"] = Namespace("geometry", _geometry=Namespace("_geometry", _sasa=_sasa))
    import copy as _copy

    interp.import_models["copy"] = Namespace("copy", deepcopy=_copy.deepcopy, copy=_copy.copy)  # a dict of floats
    mod = ctx.module("mdtraj/geometry/sasa.py")
    table = mod.globals["_ATOMIC_RADII"]
    elements = ["C", "H", "O", "N", "S"]
    res_of = [0, 0, 1, 1, 2]

    class El:
        def __init__(self, s):
            self.symbol = s

    class Res:
        def __init__(self, i):
            self.index = i

    class At:
        def __init__(self, i):
            self.index, self.element, self.residue = i, El(elements[i]), Res(res_of[i])

    class Top:
        atoms = [At(i) for i in range(5)]

    class T:
        pass
    t = T()
    t.xyz = np.zeros((2, 5, 3), dtype=np.float32)
    t.n_atoms, t.n_residues, t.top, t.topology = 5, 3, Top, Top
    probe, rO = ctx.real("probe_radius"), ctx.real("radius_O")
    ctx.assume(probe >= 0, rO > 0)
    atom_indices = {"all": None, "subset": [1, 2]}[sel]
    out = ctx.call(mod.globals["shrake_rupley"], t, probe_radius=probe, n_sphere_points=77, mode=mode, change_radii={"O": rO}, atom_indices=atom_indices)
    ctx.ensure("no-exception", not out.raised)
    if out.raised:
        return
    ctx.cover("returned")
    ctx.ensure("kernel-called-once", len(calls) == 1)
    if len(calls) != 1:
        return
    k = calls[0]
    ctx.ensure("coordinates-and-point-count-passed-through", z3.BoolVal(k["xyz"] is t.xyz and k["nsp"] == 77))
    for i, el in enumerate(elements):
        base = rterm(rO) if el == "O" else z3.RealVal(repr(float(table[el])))
        got = k["radii"][i]
        ctx.ensure(f"radius[{i}]=table[{el}](or-the-changed-value)+probe(to-float32)", z3.And(rterm(got) - (base + rterm(probe)) <= z3.RealVal("1e-6"), (base + rterm(probe)) - rterm(got) <= z3.RealVal("1e-6")))
    want_map = list(range(5)) if mode == "atom" else res_of
    ctx.ensure("mapping:identity-in-atom-mode,residue-index-in-residue-mode", z3.BoolVal([int(x) for x in k["mapping"]] == want_map))
    selected = set(range(5)) if atom_indices is None else set(atom_indices)
    ctx.ensure("mask:1-exactly-for-the-selected-atoms", z3.BoolVal([int(x) for x in k["mask"]] == [1 if i in selected else 0 for i in range(5)]))
    ngroups = 5 if mode == "atom" else 3
    groups_sel = {want_map[i] for i in selected}
    o0 = k["out0"]
    ctx.ensure("output-shape=(n_frames,n_groups)", z3.BoolVal(o0.shape == (2, ngroups)))
    if o0.shape == (2, ngroups):
        ok = all(float(o0[f][g]) == (0.0 if g in groups_sel else -1.0) for f in range(2) for g in range(ngroups))
        ctx.ensure("output-initialised:0-for-groups-with-a-selected-atom,-1-otherwise", z3.BoolVal(ok))
    ctx.ensure("returns-the-array-the-kernel-filled", z3.BoolVal(np.asarray(out.value, dtype=object).shape == (2, ngroups)))


contract("C13", "mdtraj/geometry/sasa.py", "shrake_rupley", cases=[(m, s) for m in ("atom", "residue") for s in ("all", "subset")], replay="sasa", covers=["returned"], max_paths=50)(shrake_rupley_py)
