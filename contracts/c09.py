"""C09 -- invariance under lattice translation / rigid motion, as consequences of contracts proved elsewhere.

Hydrogen bonds (baker_hubbard, wernet_nilsson): every distance entering the criterion is a minimum-image distance measured
with the caller's `periodic` flag (contracts of C14, re-registered here): the criterion is then a function of minimum-image
distances only, which C05 shows to be functions of the lattice classes of the separations.
"""
from mdvc.verify import contract

from . import c14py

PER = [c for c in c14py.CASES_BH if c[1] == "periodic"]
contract("C09", "mdtraj/geometry/hbond.py", "baker_hubbard", cases=PER, replay="hbond", covers=["returned"], max_paths=3000)(c14py.baker_hubbard)
contract("C09", "mdtraj/geometry/hbond.py", "wernet_nilsson", cases=PER, replay="hbond", covers=["returned"], max_paths=3000)(c14py.wernet_nilsson)


# =====================================================================================================
# Invariance lemmas over the kernel contracts of C05 / C07 (the postconditions there characterise the outputs as functions of the
# coordinate differences / of the lattice class of the separation): proved once over fresh variables.
import z3  # noqa: E402


def invariance_lemmas(ctx, case=None):
    R = lambda n: [z3.Real(f"{n}{k}") for k in range(3)]
    xa, xb, t = R("xa"), R("xb"), R("t")
    # non-periodic: the C05 `dist` contract gives out = x_b - x_a and d^2 = |out|^2
    ctx.lemma("translation:(x_b+t)-(x_a+t)=x_b-x_a", 9, lambda *v: z3.And(*[(v[3 + k] + v[6 + k]) - (v[k] + v[6 + k]) == v[3 + k] - v[k] for k in range(3)]))
    # rotation: (Q d).(Q e) = d.e for Q with orthonormal columns -- exact identity with explicit multipliers (a certificate):
    #   (Qd).(Qe) - d.e = sum_ij d_i e_j ( col_i.col_j - delta_ij )
    import sympy as sp

    Q = sp.Matrix(3, 3, lambda i, k: sp.Symbol(f"Q{i}{k}"))
    d = sp.Matrix(3, 1, lambda i, _: sp.Symbol(f"d{i}"))
    e = sp.Matrix(3, 1, lambda i, _: sp.Symbol(f"e{i}"))
    lhs = ((Q * d).T * (Q * e))[0, 0] - (d.T * e)[0, 0]
    G = Q.T * Q - sp.eye(3)
    cert = sum(d[i] * e[k] * G[i, k] for i in range(3) for k in range(3))
    ctx.ensure("rotation:(Q.d).(Q.e)-d.e=sum_ij-d_i*e_j*(Q^T.Q-I)_ij(so-lengths,angles,dihedral-cosines-are-unchanged-when-Q^T.Q=I)", sp.expand(lhs - cert) == 0, kind="lemma-poly")
    # cross products (dihedral sign): (Qa)x(Qb) = det(Q) Q (a x b) for every 3x3 matrix with Q^T Q = I; as an identity: Q^T((Qa)x(Qb)) = det(Q) (a x b)
    a = sp.Matrix(3, 1, lambda i, _: sp.Symbol(f"a{i}"))
    b = sp.Matrix(3, 1, lambda i, _: sp.Symbol(f"b{i}"))
    ctx.ensure("rotation:Q^T((Q.a)x(Q.b))=det(Q)*(a.x.b)(proper-rotations-keep-the-dihedral-sign,mirror-images-flip-it)",
               (Q.T * ((Q * a).cross(Q * b)) - Q.det() * a.cross(b)).expand() == sp.zeros(3, 1), kind="lemma-poly")
    # periodic, orthorhombic: the C05 `dist_mic` contract gives, per component, out = diff - n L with integer n and |out| <= L/2.
    # Shifting an atom by k L (k integer) changes diff by k L; ANY two outputs admitted by the contract differ by m L (m integer) and have the same square.
    o1, L = z3.Real("o1"), z3.Real("L")
    m = z3.Int("m")
    o2 = o1 - z3.ToReal(m) * L
    ctx.split_hint("lattice-shift", m <= -2)
    ctx.split_hint("lattice-shift", m >= 2)
    ctx.split_hint("lattice-shift", m == 0)
    ctx.split_hint("lattice-shift", m == 1)
    ctx.ensure("lattice-shift(orthorhombic):two-wrapped-representatives-of-one-lattice-class-have-the-same-square",
               z3.Implies(z3.And(L > 0, o1 <= L / 2, -o1 <= L / 2, o2 <= L / 2, -o2 <= L / 2), o1 * o1 == o2 * o2))
    ctx.ensure("lemmas-stated", True)
    ctx.cover("stated")


contract("C09", "mdtraj/geometry/src/kernels/distancekernels.h", "lemmas:invariance-over-the-kernel-contracts", lang="c", replay="invariance", covers=["stated"])(invariance_lemmas)
