"""C09 -- invariance under lattice translation / rigid motion, as consequences of contracts proved elsewhere.

Hydrogen bonds (baker_hubbard, wernet_nilsson): every distance entering the criterion is a minimum-image distance measured
with the caller's `periodic` flag (contracts of C14, re-registered here): the criterion is then a function of minimum-image
distances only, which C05 shows to be functions of the lattice classes of the separations.
"""
from mdvc.verify import contract

from . import c14py

PER = [c for c in c14py.CASES_BH if c[1] == "periodic"]
contract("C09", "mdtraj/geometry/hbond.py", "baker_hubbard", cases=PER, replay="hbond", covers=["returned"], max_paths=3000)(c14py.baker_hubbard)
contract("C09", "mdtraj/geometry/hbond.py", "wernet_nilsson", cases=PER, replay="hbond", covers=["returned"], max_paths=3000)(c14py.wernet_nilsson)
