"""Symbolic Trajectory objects (instances of the REAL class `Trajectory`, fields = traced arrays) and
recording stubs for the file classes, shared by the C01 / C03 / C17 / C20 contracts."""
import z3

from mdvc import core
from mdvc.core import SBool, SInt, Unsupported
from mdvc.pyinterp import ClassObj, ExcClass, EXC, Namespace, Obj, OpaqueModule
from mdvc.tarr import TArr, KeyTok

# native distance unit of every format, FROM THE FORMAT SPECIFICATIONS (not from the code):
# AMBER (nc, ncrst, mdcrd, rst7), CHARMM/NAMD DCD, XYZ, LAMMPS 'real'/'metal' dumps, PDB, Desmond DTR: angstrom;
# GROMACS (xtc, trr, gro) and the MDTraj HDF5 convention: nanometre.
NATIVE_UNIT = {
    "XTCTrajectoryFile": "nanometers", "TRRTrajectoryFile": "nanometers", "GroTrajectoryFile": "nanometers",
    "HDF5TrajectoryFile": "nanometers", "LH5TrajectoryFile": "nanometers",
    "DCDTrajectoryFile": "angstroms", "DTRTrajectoryFile": "angstroms", "NetCDFTrajectoryFile": "angstroms",
    "AmberNetCDFRestartFile": "angstroms", "AmberRestartFile": "angstroms", "MDCRDTrajectoryFile": "angstroms",
    "XYZTrajectoryFile": "angstroms", "LAMMPSTrajectoryFile": "angstroms", "PDBTrajectoryFile": "angstroms",
    "ArcTrajectoryFile": "angstroms",  # TINKER archives: angstrom
}
FACTOR_FROM_NM = {"nanometers": 1.0, "angstroms": 10.0}

PYX = {"XTCTrajectoryFile": "mdtraj/formats/xtc/xtc.pyx", "TRRTrajectoryFile": "mdtraj/formats/xtc/trr.pyx",
       "DCDTrajectoryFile": "mdtraj/formats/dcd/dcd.pyx", "DTRTrajectoryFile": "mdtraj/formats/dtr/dtr.pyx"}
PYFILE = {"HDF5TrajectoryFile": "mdtraj/formats/hdf5.py", "LH5TrajectoryFile": "mdtraj/formats/lh5.py",
          "GroTrajectoryFile": "mdtraj/formats/gro.py", "NetCDFTrajectoryFile": "mdtraj/formats/netcdf.py",
          "AmberNetCDFRestartFile": "mdtraj/formats/amberrst.py", "AmberRestartFile": "mdtraj/formats/amberrst.py",
          "MDCRDTrajectoryFile": "mdtraj/formats/mdcrd.py", "XYZTrajectoryFile": "mdtraj/formats/xyzfile.py",
          "LAMMPSTrajectoryFile": "mdtraj/formats/lammpstrj.py", "PDBTrajectoryFile": "mdtraj/formats/pdb/pdbfile.py",
          "ArcTrajectoryFile": "mdtraj/formats/arc.py"}


def real_distance_unit(repo, cls):
    """the distance_unit attribute as written in the real class body (py: ast; pyx: text)"""
    import ast
    import os
    import re

    if cls in PYX:
        txt = open(os.path.join(repo, PYX[cls])).read()
        m = re.search(r"class\s+" + cls + r"\b.*?^\s+(?:self\.)?distance_unit\s*=\s*['\"](\w+)['\"]", txt, re.S | re.M)
        return m.group(1) if m else None
    tree = ast.parse(open(os.path.join(repo, PYFILE[cls])).read())
    for n in tree.body:
        if isinstance(n, ast.ClassDef) and n.name == cls:
            for s in n.body:
                if isinstance(s, ast.Assign) and any(isinstance(t, ast.Name) and t.id == "distance_unit" for t in s.targets):
                    return ast.literal_eval(s.value)
    return None


class WriterStub:
    """Recording stand-in for a *TrajectoryFile class at a save_* call site: the constructor and
    write() calls are logged; the classes themselves are under contract separately (C19/C20)."""

    def __init__(self, name, log, unit):
        self.name = name
        self.log = log
        self.distance_unit = unit

    def sym_getattr(self, interp, attr):
        if attr == "distance_unit":
            return self.distance_unit
        raise Unsupported(f"{self.name}.{attr}")

    def sym_call(self, interp, args, kwargs):
        rec = {"cls": self.name, "args": list(args), "kwargs": dict(kwargs), "writes": [], "attrs": {}, "closed": False}
        self.log.append(rec)
        return WriterInst(self, rec)


class WriterInst:
    def __init__(self, stub, rec):
        self.stub = stub
        self.rec = rec

    def sym_getattr(self, interp, attr):
        if attr == "distance_unit":
            return self.stub.distance_unit
        if attr == "write":
            return lambda *a, **k: self.rec["writes"].append((list(a), dict(k)))
        if attr == "__enter__":
            return lambda: self
        if attr == "__exit__":
            return lambda *a: self.rec.__setitem__("closed", True)
        if attr == "close":
            return lambda: self.rec.__setitem__("closed", True)
        raise Unsupported(f"{self.stub.name} instance .{attr}")

    def sym_setattr(self, interp, attr, v):
        self.rec["attrs"][attr] = v


class TopologyTok:
    """opaque topology with a concrete atom count"""

    def __init__(self, n_atoms, name="top"):
        self._numAtoms = n_atoms
        self.n_atoms = n_atoms
        self.name = name

    def sym_getattr(self, interp, attr):
        if attr in ("_numAtoms", "n_atoms"):
            return self._numAtoms
        if attr == "atoms":
            return [Namespace("atom", name=f"A{i}", index=i) for i in range(self._numAtoms if isinstance(self._numAtoms, int) else 0)]
        raise Unsupported(f"Topology.{attr}")

    def sym_is(self, interp, other):
        return self is other


def install_trajectory_env(ctx, log, repo):
    """import models needed to load mdtraj/core/trajectory.py: file classes become recording stubs"""
    im = ctx.interp.import_models
    stubs = {n: WriterStub(n, log, real_distance_unit(repo, n)) for n in NATIVE_UNIT}
    im["mdtraj.formats"] = Namespace("mdtraj.formats", **stubs)
    im["functools"] = __import__("functools")
    im["copy"] = Namespace("copy", deepcopy=lambda x: deepcopy_model(x), copy=lambda x: x)
    import os as _os
    os_ns = Namespace("os", fspath=lambda p: p, path=Namespace("os.path", exists=lambda p: SBool(z3.Bool("exists")),
                                                              isfile=lambda p: True, splitext=_os.path.splitext,
                                                              basename=_os.path.basename))
    os_ns._attrs["PathLike"] = type("PathLike", (), {})
    im["os"] = os_ns
    # unit-cell conversions are under contract in C17; at call sites they are uninterpreted functions of their arguments
    def la2bv(interp, args, kwargs):
        nfs = tuple(a.nf() for a in args)
        sh = args[0].shape
        return tuple(TArr(("la2bv", k) + nfs, shape=tuple(sh) + (3,)) for k in range(3))

    def bv2la(interp, args, kwargs):
        nfs = tuple(a.nf() for a in args)
        sh = args[0].shape[:-1]
        return tuple(TArr(("bv2la", k) + nfs, shape=sh) for k in range(6))

    ctx.interp.call_models["mdtraj.utils.unitcell.lengths_and_angles_to_box_vectors"] = la2bv
    ctx.interp.call_models["mdtraj.utils.unitcell.box_vectors_to_lengths_and_angles"] = bv2la
    return stubs


def deepcopy_model(x):
    if x is None:
        return None
    if isinstance(x, TopologyTok):
        return TopologyTok(x._numAtoms, x.name + "'")
    if isinstance(x, TArr):
        return x.derive(buf=None)
    if isinstance(x, Obj):
        # an interpreted object defining __deepcopy__ (the real Topology): copy.deepcopy calls it with a memo dict
        from mdvc.pyinterp import CURRENT_INTERP

        try:
            x.cls.lookup("__deepcopy__")
        except KeyError:
            raise Unsupported("deepcopy of an object without __deepcopy__")
        return CURRENT_INTERP[-1].call_method(x, "__deepcopy__", [{}], {})
    raise Unsupported("deepcopy of this value")


def make_traj(ctx, F, A, cell=True, name="t", time=True, traces=False):
    """A Trajectory object satisfying inv_traj: fields are traced arrays named after the field."""
    mod = ctx.module("mdtraj/core/trajectory.py")
    cls = mod.globals["Trajectory"]
    t = Obj(cls)
    t.fields.update(
        _xyz=TArr(name + ".xyz", shape=(F, A, 3)),
        _time=TArr(name + ".time", shape=(F,)),
        _unitcell_lengths=TArr(name + ".unitcell_lengths", shape=(F, 3)) if cell else None,
        _unitcell_angles=TArr(name + ".unitcell_angles", shape=(F, 3)) if cell else None,
        _topology=TopologyTok(A, name + ".top"),
        _rmsd_traces=TArr(name + ".traces", shape=(F,)) if traces else None,
        _time_default_to_arange=False,
    )
    return t, mod
