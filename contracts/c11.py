"""C11 -- re-imaging: the Python side of make_molecules_whole / image_molecules (mdtraj/core/trajectory.py).

The Cython kernels (image_molecules.pxi) are outside the verifier's reach (no Cython here: bounded only).  What the Python
methods must get right for the kernels' guarantees to apply to the CURRENT molecule is proved here on the real Trajectory and
the real Topology classes (fixed 5-atom / 4-bond shape of C04, symbolic frame count):

   the bond table handed to the kernel is exactly the topology's CURRENT bonds as (index, index) pairs sorted by first atom
   -- also after the same Topology object was edited in place (insert_atom renumbers the atoms) between two calls;
   the kernel receives the result's coordinates and the result's own cell vectors; unit cells and times are untouched;
   inplace=False leaves the original untouched and returns fresh coordinate storage (the clauses of C03 are re-used).
"""
import numpy as _np
import z3

from mdvc import core
from mdvc.pyinterp import Namespace
from mdvc.verify import contract

from . import c03, c04
from . import trajmodel as TM
from mdvc.npmodel import NumpyT


class NumpyH(NumpyT):
    """NumpyT plus: np.asarray of a Python list of integer pairs is the concrete table (what the bond comprehension builds)"""

    def np_asarray(self, interp, x, dtype=None, **k):
        if isinstance(x, list) and all(isinstance(r, (list, tuple)) and all(isinstance(v, int) for v in r) for r in x):
            return _np.asarray(x, dtype=_np.int32).reshape(-1, 2)
        return super().np_asarray(interp, x, dtype=dtype, **k)


CASES = [(m, i) for m in ("make_molecules_whole", "image_molecules") for i in (True, False)]


def reimage_bonds(ctx, case):
    meth, inplace = case
    mod_top, elems = c04.setup(ctx)  # loads the real mdtraj/core/topology.py
    calls = []
    c03.install(ctx)
    im = ctx.interp.import_models

    def whole(xyz, box, bonds):
        calls.append(dict(xyz=xyz, box=box, bonds=bonds))
        c03.mutate(xyz, "whole")

    def image(xyz, box, anchors, others, bonds):
        calls.append(dict(xyz=xyz, box=box, bonds=bonds))
        c03.mutate(xyz, "imaged")

    im["mdtraj.geometry"] = Namespace("geometry", _geometry=Namespace("_geometry", whole_molecules=whole, image_molecules=image), distance=Namespace("distance"))
    im["numpy"] = NumpyH()
    top, _view, bonds, atoms = c04.build(ctx, mod_top, elems, "t", symbolic=False)
    F = ctx.int("F")
    ctx.assume(F >= 1)
    t, mod = TM.make_traj(ctx, F, 5)
    t.fields["_topology"] = top
    kw = dict(anchor_molecules=[], other_molecules=[]) if meth == "image_molecules" else {}

    def current_bonds():
        idx = [(a.fields["index"], b.fields["index"]) for (a, b, _t, _o) in c04.bonds_of(top)]
        return sorted(idx, key=lambda p: p[0])

    def check(tag, traj, n_before):
        want = current_bonds()
        out = ctx.call_method(traj, meth, inplace=inplace, **kw)
        ctx.ensure(f"{tag}:no-exception", not out.raised)
        if out.raised:
            return None
        ctx.ensure(f"{tag}:kernel-called-once", len(calls) == n_before + 1)
        if len(calls) != n_before + 1:
            return None
        got = calls[-1]["bonds"]
        ok = isinstance(got, _np.ndarray) and got.dtype == _np.int32 and [tuple(int(v) for v in r) for r in got] == want
        ctx.ensure(f"{tag}:bond-table=current-topology-bonds-as-index-pairs-sorted-by-first-atom", ok)
        r = out.value if not inplace else traj
        ctx.ensure(f"{tag}:kernel-works-on-the-result's-coordinates", calls[-1]["xyz"] is r.fields["_xyz"])
        return r

    src = dict(t.fields)
    r = check("first-call", t, 0)
    if r is None:
        return
    ctx.cover("first-call")
    for f in ["_time", "_unitcell_lengths", "_unitcell_angles"]:
        ctx.ensure(f"{f}-untouched", c03.same_value(r.fields[f], src[f]) and not src[f].mutations)
    if not inplace:
        ctx.ensure("inplace=False:self-coordinates-untouched", t.fields["_xyz"] is src["_xyz"] and not src["_xyz"].mutations)
        ctx.ensure("inplace=False:result-buffer-fresh", r.fields["_xyz"].buf != src["_xyz"].buf)
    # history: the SAME Topology object is edited in place (atoms renumbered), a trajectory with the new atom is imaged
    res0 = top.fields["_chains"][0].fields["_residues"][0]
    out = ctx.call_method(top, "insert_atom", "VS", elems["virtual"], res0, index=0)
    ctx.ensure("insert_atom:no-exception", not out.raised)
    if out.raised:
        return
    t2, _ = TM.make_traj(ctx, F, 6, name="t2")
    t2.fields["_topology"] = top
    if check("after-insert_atom(index=0)", t2, len(calls)) is not None:
        ctx.cover("second-call")


contract("C11", "mdtraj/core/trajectory.py", "Trajectory.make_molecules_whole|image_molecules", cases=CASES, replay="image", covers=["first-call", "second-call"])(reimage_bonds)


# =====================================================================================================
# the Cython kernels make_whole / whole_molecules / wrap_mols (mdtraj/geometry/src/image_molecules.pxi), extracted mechanically
# (mdvc/decython.py states exactly what the extraction drops) and executed on symbolic positions and cells
PXI = "mdtraj/geometry/src/image_molecules.pxi"


def _load_pxi(ctx, names):
    import os
    from mdvc import decython, npobj

    ctx.interp.import_models["numpy"] = npobj.NumpyO()
    text = open(os.path.join(ctx.interp.repo, PXI)).read()
    src, dropped = decython.extract(text, names)
    mod = ctx.interp.load_source("image_molecules_pxi", src, os.path.join(ctx.interp.repo, PXI))
    mod.globals["roundf"] = lambda x: round(x) if core.is_sym(x) else float(round(x))
    import math

    def floorf(x):
        if not core.is_sym(x):
            return float(math.floor(x))
        memo = ctx.ex.path.ghost.setdefault("floor_memo", {})
        key = z3.simplify(core.rterm(x)).sexpr()
        if key in memo:  # floorf is a function
            return core.SInt(memo[key])
        n = z3.Int(core.fresh_name("flr"))
        memo[key] = n
        r = z3.ToReal(n)
        ctx.ex.assume(z3.And(r <= core.rterm(x), core.rterm(x) < r + 1))
        ctx.ex.path.ghost.setdefault("floor_witness", []).append((core.rterm(x), n))
        return core.SInt(n)
    mod.globals["floorf"] = floorf
    return mod, dropped


BOND_ORDERS = {"chain": [(0, 1), (1, 2), (2, 3)], "branched": [(0, 1), (0, 2), (2, 3)], "two-molecules": [(0, 1), (2, 3)]}


def make_whole(ctx, case):
    """make_whole on one frame, bonds sorted by first atom with every parent numbered before its children (the documented input
    form; other numberings are a recorded finding), positions and a lower-triangular cell symbolic:
       every atom is moved by an integer combination of the cell vectors (explicit witnesses: the three roundings of its bond),
       atoms that are never the second atom of a bond are not moved, the cell is not modified, and afterwards every bond vector
       lies in the centred cell: |d_z| <= c_z/2, |d_y| <= b_y/2, |d_x| <= a_x/2 (its minimum-image representative for a reduced cell)"""
    import numpy as np
    from mdvc import npobj
    from mdvc.core import rterm

    bonds = BOND_ORDERS[case]
    mod, dropped = _load_pxi(ctx, ["make_whole"])
    A = 4
    X = [[ctx.real(f"x{a}_{k}") for k in range(3)] for a in range(A)]
    B = [[ctx.real(f"b{r}{k}") for k in range(3)] for r in range(3)]
    ctx.assume(B[0][1] == 0, B[0][2] == 0, B[1][2] == 0, B[0][0] > 0, B[1][1] > 0, B[2][2] > 0)
    pos = npobj.oarr((A, 3), lambda a, k: X[a][k])
    box = npobj.oarr((3, 3), lambda r, k: B[r][k])
    out = ctx.call(mod.globals["make_whole"], pos, box, np.array(bonds, dtype=np.int32))
    ctx.ensure("no-exception", not out.raised)
    if out.raised:
        return
    ctx.cover("returned")
    wit = [z3.ToReal(n) for (_t, n) in ctx.ex.path.ghost.get("round_witness", [])]
    raw = ctx.ex.path.ghost.get("round_witness", [])
    # per bond the code rounds five distinct quotients, in this order: delta_z/c_z (used), (delta_y-off_y)/b_y (used), the same with
    # the updated off_y (multiplied by b_z = 0), (delta_x-off_x)/a_x (used), the same with the updated off_x (multiplied by a_y = a_z = 0)
    ctx.ensure("five-distinct-roundings-per-bond", len(wit) == 5 * len(bonds))
    if len(wit) != 5 * len(bonds):
        return
    V = [[rterm(B[r][k]) for k in range(3)] for r in range(3)]
    half = z3.RealVal("1/2")
    WBdiv = ctx.lemma("WBdiv:|n-t|<=1/2,t*B=r,B>0=>|r-n*B|<=B/2", 4, lambda n, t, Bv, r: z3.Implies(
        z3.And(n - t <= half, t - n <= half, t * Bv == r, Bv > 0), z3.And(r - n * Bv <= Bv / 2, n * Bv - r <= Bv / 2)))
    moved = {}
    cur = {a: [rterm(X[a][k]) for k in range(3)] for a in range(A)}
    for j, (a1, a2) in enumerate(bonds):
        n3, n2, n1 = wit[5 * j], wit[5 * j + 1], wit[5 * j + 3]
        t3, t2, t1 = raw[5 * j][0], raw[5 * j + 1][0], raw[5 * j + 3][0]
        d = [cur[a2][k] - cur[a1][k] for k in range(3)]
        WBdiv(n3, t3, V[2][2], d[2])
        WBdiv(n2, t2, V[1][1], d[1] - n3 * V[2][1])
        WBdiv(n1, t1, V[0][0], d[0] - n3 * V[2][0] - n2 * V[1][0])
        cur[a2] = [cur[a2][k] - n3 * V[2][k] - n2 * V[1][k] - n1 * V[0][k] for k in range(3)]
        moved[a2] = True
    for a in range(A):
        for k in range(3):
            ctx.ensure(f"atom{a}[{k}]=old-position-minus-integer-combination-of-the-cell-vectors" if a in moved else f"atom{a}[{k}]-not-moved(never-a-second-atom)",
                       rterm(pos[a][k]) == cur[a][k])
    for (a1, a2) in bonds:
        d = [rterm(pos[a2][k]) - rterm(pos[a1][k]) for k in range(3)]
        for k in (2, 1, 0):
            ctx.ensure(f"bond({a1},{a2}):component[{k}]-within-half-the-cell-diagonal", z3.And(d[k] <= V[k][k] / 2, -d[k] <= V[k][k] / 2))
    ctx.ensure("cell-not-modified", all(box[r][k] is B[r][k] for r in range(3) for k in range(3)))


contract("C11", PXI, "make_whole", cases=list(BOND_ORDERS), replay="image", covers=["returned"], max_paths=50)(make_whole)


def whole_molecules(ctx, case=None):
    """whole_molecules(xyz, box, sorted_bonds): frame i is made whole with ITS OWN cell (two frames)"""
    import numpy as np
    from mdvc import npobj

    mod, dropped = _load_pxi(ctx, ["whole_molecules"])
    calls = []
    mod.globals["make_whole"] = lambda p, b, s: calls.append((p, b, s))
    xyz = npobj.oarr((2, 3, 3), lambda f, a, k: ctx.real(f"x{f}_{a}_{k}"))
    box = npobj.oarr((2, 3, 3), lambda f, r, k: ctx.real(f"b{f}_{r}{k}"))
    bonds = np.array([[0, 1], [1, 2]], dtype=np.int32)
    out = ctx.call(mod.globals["whole_molecules"], xyz, box, bonds)
    ctx.ensure("no-exception", not out.raised)
    if out.raised:
        return
    ctx.cover("returned")
    ctx.ensure("one-call-per-frame-with-that-frame's-positions-and-cell", len(calls) == 2 and all(
        np.shares_memory(calls[f][0], xyz[f]) and calls[f][0].shape == (3, 3) and all(calls[f][1][r][k] is box[f][r][k] for r in range(3) for k in range(3)) and calls[f][2] is bonds
        for f in range(2)))


contract("C11", PXI, "whole_molecules", replay="image", covers=["returned"])(whole_molecules)


def wrap_mols(ctx, case=None):
    """wrap_mols on one frame (5 atoms: atoms 0,1 anchor, molecules {2,3} and {4} to be wrapped), positions, centre and a lower-triangular
    cell symbolic: every atom is shifted by the SAME vector t = (half the cell diagonal) - centre; every other molecule is moved in addition,
    as a whole, by one integer combination of the cell vectors, chosen so that its centroid ends up inside the cell
    (0 <= z < c_z, 0 <= y < b_y, 0 <= x < a_x after the successive c, b, a reductions); the cell is not modified"""
    import numpy as np
    from mdvc import npobj
    from mdvc.core import rterm

    mod, dropped = _load_pxi(ctx, ["wrap_mols"])
    A = 5
    X = [[ctx.real(f"x{a}_{k}") for k in range(3)] for a in range(A)]
    B = [[ctx.real(f"b{r}{k}") for k in range(3)] for r in range(3)]
    C = [ctx.real(f"center{k}") for k in range(3)]
    ctx.assume(B[0][1] == 0, B[0][2] == 0, B[1][2] == 0, B[0][0] > 0, B[1][1] > 0, B[2][2] > 0)
    pos = npobj.oarr((A, 3), lambda a, k: X[a][k])
    box = npobj.oarr((3, 3), lambda r, k: B[r][k])
    center = npobj.oarr((3,), lambda k: C[k])
    mols = [[2, 3], [4]]
    out = ctx.call(mod.globals["wrap_mols"], pos, box, center, np.array([2, 3, 4], dtype=np.int32), np.array([2, 3], dtype=np.int32))
    ctx.ensure("no-exception", not out.raised)
    if out.raised:
        return
    ctx.cover("returned")
    raw = ctx.ex.path.ghost.get("floor_witness", [])
    ctx.ensure("five-distinct-floors-per-molecule", len(raw) == 5 * len(mols))
    if len(raw) != 5 * len(mols):
        return
    V = [[rterm(B[r][k]) for k in range(3)] for r in range(3)]
    t = [V[k][k] / 2 - rterm(C[k]) for k in range(3)]
    FLdiv = ctx.lemma("FLdiv:f<=q<f+1,q*B=r,B>0=>0<=r-f*B<B", 4, lambda f, q, Bv, r: z3.Implies(
        z3.And(f <= q, q < f + 1, q * Bv == r, Bv > 0), z3.And(r - f * Bv >= 0, r - f * Bv < Bv)))
    for a in (0, 1):
        for k in range(3):
            ctx.ensure(f"anchor-atom{a}[{k}]=old+common-shift", rterm(pos[a][k]) == rterm(X[a][k]) + t[k])
    for mi, atoms in enumerate(mols):
        f3, f2, f1 = (z3.ToReal(raw[5 * mi + q][1]) for q in (0, 1, 3))
        q3, q2, q1 = (raw[5 * mi + q][0] for q in (0, 1, 3))
        cen = [sum(rterm(X[a][k]) + t[k] for a in atoms) / len(atoms) for k in range(3)]  # centroid after the common shift
        FLdiv(f3, q3, V[2][2], cen[2])
        FLdiv(f2, q2, V[1][1], cen[1] - f3 * V[2][1])
        FLdiv(f1, q1, V[0][0], cen[0] - f3 * V[2][0] - f2 * V[1][0])
        lat = [f3 * V[2][k] + f2 * V[1][k] + f1 * V[0][k] for k in range(3)]
        for a in atoms:
            for k in range(3):
                ctx.ensure(f"molecule{mi}:atom{a}[{k}]=old+common-shift-one-lattice-vector-for-the-whole-molecule", rterm(pos[a][k]) == rterm(X[a][k]) + t[k] - lat[k])
        newc = [cen[k] - lat[k] for k in range(3)]
        for k in (2, 1, 0):
            ctx.ensure(f"molecule{mi}:centroid[{k}]-inside-the-cell(0<=.<diagonal-entry)", z3.And(newc[k] >= 0, newc[k] < V[k][k]))
    ctx.ensure("cell-not-modified", all(box[r][k] is B[r][k] for r in range(3) for k in range(3)))


contract("C11", PXI, "wrap_mols", replay="image", covers=["returned"], max_paths=50)(wrap_mols)


def image_frame(ctx, case):
    """image_frame on one frame: three anchor molecules ({0,1}, {2}, {3}) and one other molecule ({4,5}); positions, the lower-triangular cell,
    the anchor-anchor contact distances and the contact atom of the two-atom anchor are symbolic.  Callee contracts: make_whole, wrap_mols (proved
    above) and anchor_dists / find_closest_contact (C; assumed: symmetric distance table; for molecules m1 > m2 the entry (m1, m2) and its mirror
    hold (atom of m1, atom of m2)).
       make_whole runs first iff a bond table is given; anchor 0 is not moved; every other anchor molecule is moved AS A WHOLE by one integer
       combination of the cell vectors (witnesses: its three roundings), after which its contact pair with the anchor it was attached to lies in
       the centred cell; wrap_mols receives the centroid of all anchor atoms (after those moves) and the untouched lists of the other
       molecules; the cell is not modified."""
    import numpy as np
    from mdvc import npobj
    from mdvc.core import rterm

    with_bonds = case
    mod, dropped = _load_pxi(ctx, ["image_frame"])
    A = 6
    X = [[ctx.real(f"x{a}_{k}") for k in range(3)] for a in range(A)]
    B = [[ctx.real(f"b{r}{k}") for k in range(3)] for r in range(3)]
    ctx.assume(B[0][1] == 0, B[0][2] == 0, B[1][2] == 0, B[0][0] > 0, B[1][1] > 0, B[2][2] > 0)
    pos = npobj.oarr((A, 3), lambda a, k: X[a][k])
    box = npobj.oarr((3, 3), lambda r, k: B[r][k])
    mols = [[0, 1], [2], [3]]
    a_idx, a_off = np.array([0, 1, 2, 3], dtype=np.int32), np.array([2, 3, 4], dtype=np.int32)
    o_idx, o_off = np.array([4, 5], dtype=np.int32), np.array([2], dtype=np.int32)
    bonds = np.array([[0, 1], [4, 5]], dtype=np.int32) if with_bonds else None
    events = []
    D = {(1, 0): ctx.real("D10"), (2, 0): ctx.real("D20"), (2, 1): ctx.real("D21")}
    ctx.assume(*[v > 0 for v in D.values()])
    contact0 = 0 if ctx.ex.branch(z3.Bool("contact-atom-of-anchor0-is-atom0")) else 1  # which atom of the two-atom anchor is the closest contact
    near = {(1, 0): (2, contact0), (2, 0): (3, contact0), (2, 1): (3, 2)}

    def anchor_dists(fp, cell, idx, off, dist, nearest, n):
        events.append(("anchor_dists", fp is pos, cell is box, n))
        for (m1, m2), v in D.items():
            dist[m1, m2] = v
            dist[m2, m1] = v
            nearest[m1, m2, 0], nearest[m1, m2, 1] = near[(m1, m2)]
            nearest[m2, m1, 0], nearest[m2, m1, 1] = near[(m1, m2)]
    snap = {}

    def wrap_mols(fp, cell, center, oi, oo):
        events.append(("wrap_mols", fp is pos, cell is box, oi is o_idx, oo is o_off))
        snap["pos"] = [[fp[a][k] for k in range(3)] for a in range(A)]
        snap["center"] = [center[k] for k in range(3)]

    def make_whole(fp, cell, sb):
        events.append(("make_whole", fp is pos, cell is box, sb is bonds))
    # the .pxi is textually included in _geometry.pyx, whose `import numpy as np` it relies on
    mod.globals.update(anchor_dists=anchor_dists, wrap_mols=wrap_mols, make_whole=make_whole, np=ctx.interp.import_models["numpy"])
    out = ctx.call(mod.globals["image_frame"], pos, box, a_idx, a_off, o_idx, o_off, bonds)
    ctx.ensure("no-exception" + (f"({out.exc.inst!r})"[:160] if out.raised else ""), not out.raised)
    if out.raised:
        return
    ctx.cover("returned")
    kinds = [e[0] for e in events]
    ctx.ensure("callees-in-order:" + ("make_whole," if with_bonds else "") + "anchor_dists,wrap_mols-each-once-on-this-frame's-positions-and-cell",
               kinds == (["make_whole"] if with_bonds else []) + ["anchor_dists", "wrap_mols"] and all(all(e[1:3]) for e in events))
    if "wrap_mols" not in kinds:
        return
    ctx.ensure("wrap_mols-gets-the-other-molecules'-lists-untouched", events[-1][3] and events[-1][4])
    if with_bonds:
        ctx.ensure("make_whole-gets-the-bond-table", events[0][3])
    raw = ctx.ex.path.ghost.get("round_witness", [])
    # per attached anchor three roundings are used (c, then b, then a); np.round of an expression that is rounded twice is one function value
    ctx.ensure("three-roundings-per-attached-anchor", len(raw) == 3 * 2)
    if len(raw) != 6:
        return
    V = [[rterm(B[r][k]) for k in range(3)] for r in range(3)]
    half = z3.RealVal("1/2")
    WBdiv = ctx.lemma("WBdiv:|n-t|<=1/2,t*B=r,B>0=>|r-n*B|<=B/2", 4, lambda n, t, Bv, r: z3.Implies(
        z3.And(n - t <= half, t - n <= half, t * Bv == r, Bv > 0), z3.And(r - n * Bv <= Bv / 2, n * Bv - r <= Bv / 2)))
    P = snap["pos"]
    for a in mols[0]:
        for k in range(3):
            ctx.ensure(f"anchor0:atom{a}[{k}]-not-moved", rterm(P[a][k]) == rterm(X[a][k]))
    # the order in which anchors 1 and 2 were attached is decided by the code (distances to anchor 0); each moved molecule is a single atom here
    moved_by = {}
    for m in (1, 2):
        a = mols[m][0]
        moved_by[m] = [rterm(X[a][k]) - rterm(P[a][k]) for k in range(3)]
    first = 1 if ctx.ex.branch(core.term(D[(1, 0)]) <= core.term(D[(2, 0)])) else 2  # np.argmin over the distances to anchor 0: the first minimum
    second = 3 - first
    d_s0, d_sf = D[(second, 0)], D[(max(second, first), min(second, first))]
    attach_to = {first: 0, second: 0 if ctx.ex.branch(core.term(d_s0) <= core.term(d_sf)) else first}  # np.argmin over [anchor 0, first attached]
    for j, m in enumerate((first, second)):
        n3, n2, n1 = (z3.ToReal(raw[3 * j + q][1]) for q in range(3))
        t3, t2, t1 = (raw[3 * j + q][0] for q in range(3))
        lat = [n3 * V[2][k] + n2 * V[1][k] + n1 * V[0][k] for k in range(3)]
        for k in range(3):
            ctx.ensure(f"attached-anchor#{j}:moved-by-one-integer-combination-of-the-cell-vectors[{k}]", moved_by[m][k] == lat[k])
        u = attach_to[m]
        pair = near[(max(m, u), min(m, u))]
        a_next, a_used = (pair[0], pair[1]) if m > u else (pair[1], pair[0])
        delta = [rterm(X[a_next][k]) - rterm(P[a_used][k]) for k in range(3)]
        WBdiv(n3, t3, V[2][2], delta[2])
        WBdiv(n2, t2, V[1][1], delta[1] - n3 * V[2][1])
        WBdiv(n1, t1, V[0][0], delta[0] - n3 * V[2][0] - n2 * V[1][0])
        after = [rterm(P[a_next][k]) - rterm(P[a_used][k]) for k in range(3)]
        for k in (2, 1, 0):
            ctx.ensure(f"attached-anchor#{j}:its-contact-pair-with-the-anchor-it-was-attached-to-lies-in-the-centred-cell[{k}]",
                       z3.And(after[k] <= V[k][k] / 2, -after[k] <= V[k][k] / 2))
    for k in range(3):
        cen = sum(rterm(P[a][k]) for a in (0, 1, 2, 3)) / 4
        ctx.ensure(f"wrap_mols-centre[{k}]=centroid-of-all-anchor-atoms-after-the-moves", rterm(snap["center"][k]) == cen)
    for a in (4, 5):
        for k in range(3):
            ctx.ensure(f"other-molecule:atom{a}[{k}]-left-to-wrap_mols", rterm(P[a][k]) == rterm(X[a][k]))
    ctx.ensure("cell-not-modified", all(box[r][k] is B[r][k] for r in range(3) for k in range(3)))


contract("C11", PXI, "image_frame", cases=[True, False], replay="image", covers=["returned"], max_paths=200)(image_frame)


def image_molecules_driver(ctx, case=None):
    """image_molecules (the driver): the lists of molecules are packed into one index array and one array of end offsets such that molecule i is
    indices[offsets[i-1]:offsets[i]], and image_frame is called once per frame with THAT frame's positions and cell (symbolic contents) and the
    same packed lists and bond table"""
    import numpy as np
    from mdvc import npobj

    mod, dropped = _load_pxi(ctx, ["image_molecules"])
    mod.globals["np"] = np  # the packing works on concrete integer arrays
    calls = []
    mod.globals["image_frame"] = lambda *a: calls.append(a)
    xyz = npobj.oarr((2, 6, 3), lambda f, a, k: ctx.real(f"x{f}_{a}_{k}"))
    box = npobj.oarr((2, 3, 3), lambda f, r, k: ctx.real(f"b{f}_{r}{k}"))
    anchors = [np.array([3, 4], dtype=np.int32), np.array([0], dtype=np.int32)]
    others = [np.array([5], dtype=np.int32), np.array([1, 2], dtype=np.int32)]
    bonds = np.array([[1, 2], [3, 4]], dtype=np.int32)
    out = ctx.call(mod.globals["image_molecules"], xyz, box, anchors, others, bonds)
    ctx.ensure("no-exception", not out.raised)
    if out.raised:
        return
    ctx.cover("returned")
    ctx.ensure("image_frame-called-once-per-frame", len(calls) == 2)
    for f, c in enumerate(calls[:2]):
        fp, cell, ai, ao, oi, oo, sb = c
        ctx.ensure(f"frame{f}:that-frame's-positions-and-cell", np.shares_memory(fp, xyz[f]) and fp.shape == (6, 3) and all(cell[r][k] is box[f][r][k] for r in range(3) for k in range(3)))
        unpack = lambda idx, off: [list(map(int, idx[(off[i - 1] if i else 0):off[i]])) for i in range(len(off))]
        ctx.ensure(f"frame{f}:anchor-molecule-i=indices[offsets[i-1]:offsets[i]]", unpack(ai, ao) == [[3, 4], [0]])
        ctx.ensure(f"frame{f}:other-molecule-i=indices[offsets[i-1]:offsets[i]]", unpack(oi, oo) == [[5], [1, 2]])
        ctx.ensure(f"frame{f}:bond-table-passed-on", sb is bonds)


contract("C11", PXI, "image_molecules", replay="image", covers=["returned"])(image_molecules_driver)


def image_molecules_lists(ctx, case):
    """Trajectory.image_molecules: the molecule lists handed to the kernel.  Real Topology (3 residues in 2 chains, 5 atoms) with the bond graph
    {0-1}, {2-3}, {4}: atoms 2 and 3 are bonded ACROSS a residue and chain boundary.  With explicit anchors [{0,1}] and other_molecules left at its
    default, the kernel must receive the anchors as given and, as the units to be wrapped, exactly the bonded molecules that are not anchors --
    {2,3} as ONE unit and {4} -- so that non-anchor molecules are placed as wholes (explicit lists are passed on unchanged)."""
    explicit = case == "explicit-lists"
    mod_top, elems = c04.setup(ctx)
    calls = []
    c03.install(ctx)
    im = ctx.interp.import_models

    def image(xyz, box, anchors, others, bonds):
        calls.append(dict(xyz=xyz, box=box, anchors=anchors, others=others, bonds=bonds))
        c03.mutate(xyz, "imaged")
    im["mdtraj.geometry"] = Namespace("geometry", _geometry=Namespace("_geometry", image_molecules=image), distance=Namespace("distance"))

    class NumpyF(NumpyH):
        def np_fromiter(self, interp, it, dtype=None, **k):
            return _np.array(sorted(int(v) for v in interp.iterate(it)), dtype=_np.int32)
    im["numpy"] = NumpyF()
    top, _view, _bonds, atoms = c04.build(ctx, mod_top, elems, "t", symbolic=False)
    # replace the bond graph: 0-1 | 2-3 (across residues and chains) | 4
    top.fields["_bonds"] = []
    for i, j in ((0, 1), (2, 3)):
        ctx.interp.call_method(top, "add_bond", [atoms[i], atoms[j]], {})
    F = ctx.int("F")
    ctx.assume(F >= 1)
    t, mod = TM.make_traj(ctx, F, 5)
    t.fields["_topology"] = top
    anchors = [{atoms[0], atoms[1]}]
    kw = dict(anchor_molecules=anchors)
    if explicit:
        kw["other_molecules"] = [{atoms[4]}]
    out = ctx.call_method(t, "image_molecules", inplace=True, **kw)
    ctx.ensure("no-exception", not out.raised)
    if out.raised or len(calls) != 1:
        ctx.ensure("kernel-called-once", len(calls) == 1)
        return
    ctx.cover("called")
    got_a = [sorted(int(v) for v in a) for a in calls[0]["anchors"]]
    got_o = sorted(sorted(int(v) for v in a) for a in calls[0]["others"])
    ctx.ensure("anchors-are-the-caller's-anchor-molecules", got_a == [[0, 1]])
    if explicit:
        ctx.ensure("explicit-other-molecules-are-passed-on-unchanged", got_o == [[4]])
    else:
        ctx.ensure("default-other-molecules=the-bonded-molecules-that-are-not-anchors(each-as-ONE-unit,also-across-residues)", got_o == [[2, 3], [4]])


contract("C11", "mdtraj/core/trajectory.py", "Trajectory.image_molecules(molecule-lists)", cases=["default-others", "explicit-lists"], replay="image", covers=["called"])(image_molecules_lists)
