"""C11 -- re-imaging: the Python side of make_molecules_whole / image_molecules (mdtraj/core/trajectory.py).

The Cython kernels (image_molecules.pxi) are outside the verifier's reach (no Cython here: bounded only).  What the Python
methods must get right for the kernels' guarantees to apply to the CURRENT molecule is proved here on the real Trajectory and
the real Topology classes (fixed 5-atom / 4-bond shape of C04, symbolic frame count):

   the bond table handed to the kernel is exactly the topology's CURRENT bonds as (index, index) pairs sorted by first atom
   -- also after the same Topology object was edited in place (insert_atom renumbers the atoms) between two calls;
   the kernel receives the result's coordinates and the result's own cell vectors; unit cells and times are untouched;
   inplace=False leaves the original untouched and returns fresh coordinate storage (the clauses of C03 are re-used).
"""
import numpy as _np
import z3

from mdvc import core
from mdvc.pyinterp import Namespace
from mdvc.verify import contract

from . import c03, c04
from . import trajmodel as TM
from mdvc.npmodel import NumpyT


class NumpyH(NumpyT):
    """NumpyT plus: np.asarray of a Python list of integer pairs is the concrete table (what the bond comprehension builds)"""

    def np_asarray(self, interp, x, dtype=None, **k):
        if isinstance(x, list) and all(isinstance(r, (list, tuple)) and all(isinstance(v, int) for v in r) for r in x):
            return _np.asarray(x, dtype=_np.int32).reshape(-1, 2)
        return super().np_asarray(interp, x, dtype=dtype, **k)


CASES = [(m, i) for m in ("make_molecules_whole", "image_molecules") for i in (True, False)]


def reimage_bonds(ctx, case):
    meth, inplace = case
    mod_top, elems = c04.setup(ctx)  # loads the real mdtraj/core/topology.py
    calls = []
    c03.install(ctx)
    im = ctx.interp.import_models

    def whole(xyz, box, bonds):
        calls.append(dict(xyz=xyz, box=box, bonds=bonds))
        c03.mutate(xyz, "whole")

    def image(xyz, box, anchors, others, bonds):
        calls.append(dict(xyz=xyz, box=box, bonds=bonds))
        c03.mutate(xyz, "imaged")

    im["mdtraj.geometry"] = Namespace("geometry", _geometry=Namespace("_geometry", whole_molecules=whole, image_molecules=image), distance=Namespace("distance"))
    im["numpy"] = NumpyH()
    top, _view, bonds, atoms = c04.build(ctx, mod_top, elems, "t", symbolic=False)
    F = ctx.int("F")
    ctx.assume(F >= 1)
    t, mod = TM.make_traj(ctx, F, 5)
    t.fields["_topology"] = top
    kw = dict(anchor_molecules=[], other_molecules=[]) if meth == "image_molecules" else {}

    def current_bonds():
        idx = [(a.fields["index"], b.fields["index"]) for (a, b, _t, _o) in c04.bonds_of(top)]
        return sorted(idx, key=lambda p: p[0])

    def check(tag, traj, n_before):
        want = current_bonds()
        out = ctx.call_method(traj, meth, inplace=inplace, **kw)
        ctx.ensure(f"{tag}:no-exception", not out.raised)
        if out.raised:
            return None
        ctx.ensure(f"{tag}:kernel-called-once", len(calls) == n_before + 1)
        if len(calls) != n_before + 1:
            return None
        got = calls[-1]["bonds"]
        ok = isinstance(got, _np.ndarray) and got.dtype == _np.int32 and [tuple(int(v) for v in r) for r in got] == want
        ctx.ensure(f"{tag}:bond-table=current-topology-bonds-as-index-pairs-sorted-by-first-atom", ok)
        r = out.value if not inplace else traj
        ctx.ensure(f"{tag}:kernel-works-on-the-result's-coordinates", calls[-1]["xyz"] is r.fields["_xyz"])
        return r

    src = dict(t.fields)
    r = check("first-call", t, 0)
    if r is None:
        return
    ctx.cover("first-call")
    for f in ["_time", "_unitcell_lengths", "_unitcell_angles"]:
        ctx.ensure(f"{f}-untouched", c03.same_value(r.fields[f], src[f]) and not src[f].mutations)
    if not inplace:
        ctx.ensure("inplace=False:self-coordinates-untouched", t.fields["_xyz"] is src["_xyz"] and not src["_xyz"].mutations)
        ctx.ensure("inplace=False:result-buffer-fresh", r.fields["_xyz"].buf != src["_xyz"].buf)
    # history: the SAME Topology object is edited in place (atoms renumbered), a trajectory with the new atom is imaged
    res0 = top.fields["_chains"][0].fields["_residues"][0]
    out = ctx.call_method(top, "insert_atom", "VS", elems["virtual"], res0, index=0)
    ctx.ensure("insert_atom:no-exception", not out.raised)
    if out.raised:
        return
    t2, _ = TM.make_traj(ctx, F, 6, name="t2")
    t2.fields["_topology"] = top
    if check("after-insert_atom(index=0)", t2, len(calls)) is not None:
        ctx.cover("second-call")


contract("C11", "mdtraj/core/trajectory.py", "Trajectory.make_molecules_whole|image_molecules", cases=CASES, replay="image", covers=["first-call", "second-call"])(reimage_bonds)
