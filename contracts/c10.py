"""C10 -- neighbour searches return exactly the atoms within the cutoff: the brute-force kernel `_compute_neighbors`.

Executed from clang's AST on query/haystack lists of fixed small length (2 x 2; bounded in the list lengths --
stated in evidence) with SYMBOLIC atom indices, coordinates, box and cutoff (complete in the values):
  per evaluated (haystack i, query j) pair:  the vector whose squared length is compared with cutoff^2 is
      x_i - x_j minus an integer lattice combination (explicit rounding witnesses), wrapped into the centred cell;
  the result is exactly the sub-sequence of the haystack (same order, no duplicates) of atoms i having some
      query atom j != i with that squared length < cutoff^2; an atom is left out only after ALL query atoms were tried;
  the query atom itself never counts.
With lemma L5 of C05 (cutoff <= half the smallest width) the wrapped length is the minimum-image distance.
"""
import z3

from mdvc import core
from mdvc.cinterp import NULL, Ptr, Region, StdVector
from mdvc.core import SInt, SReal, rterm, term
from mdvc.verify import contract

INC = dict(include=("mdtraj/geometry/include",))


import os  # noqa: E402

_LISTS = ((2, 1), (1, 2), (2, 2)) if os.environ.get("MDVC_TIER") == "thorough" else ((2, 1), (1, 2))
CASES = [(b, hq) for b in ("no-box", "orthorhombic", "triclinic-b-skewed", "triclinic-c-skewed") for hq in _LISTS]


def compute_neighbors(ctx, case):
    case, (nh, nq) = case
    c = ctx.load_c("mdtraj/geometry/src/neighbors.cpp", ["_compute_neighbors"], **INC)
    xyz = Region("xyz")
    box = Region("box")
    xyz.mem0, box.mem0 = xyz.mem, box.mem
    na, cutoff = ctx.int("n_atoms"), ctx.real("cutoff")
    q = [ctx.int(f"q{k}") for k in range(nq)]
    h = [ctx.int(f"h{k}") for k in range(nh)]
    ctx.assume(na >= 1, cutoff > 0, *[x >= 0 for x in q + h], *[x < na for x in q + h])
    B = lambda k: z3.Select(box.mem0, k)
    if case == "orthorhombic":
        ctx.assume(*[B(k) == 0 for k in (1, 2, 3, 5, 6, 7)], B(0) > 0, B(4) > 0, B(8) > 0)
    elif case == "triclinic-b-skewed":
        # rows are the box vectors; lower triangular with positive diagonal (standard orientation); b has an x component
        ctx.assume(B(1) == 0, B(2) == 0, B(5) == 0, B(0) > 0, B(4) > 0, B(8) > 0, B(3) != 0)
    elif case == "triclinic-c-skewed":
        ctx.assume(B(1) == 0, B(2) == 0, B(5) == 0, B(0) > 0, B(4) > 0, B(8) > 0, B(3) == 0, B(6) != 0)
    events = []

    def decl_hook(interp, env, name, v):
        if name == "dist2":
            i, j = interp.getvar(env, "i"), interp.getvar(env, "j")
            delta = [rterm(x) for x in interp.getvar(env, "delta").v[:3]]
            wit = [n for (_t, n) in ctx.ex.path.ghost.get("round_witness", [])]
            events.append(dict(i=i, j=j, delta=delta, d2=rterm(v), n_wit=len(wit), wit=wit[-3:]))
            ex = ctx.ex
            diff = [z3.Select(xyz.mem0, 3 * term(i) + k) - z3.Select(xyz.mem0, 3 * term(j) + k) for k in range(3)]
            ex.require("pair:dist2=|delta|^2", rterm(v) == sum(t * t for t in delta))
            if case == "no-box":
                for k in range(3):
                    ex.require(f"pair:delta[{k}]=x_i-x_j", delta[k] == diff[k])
            elif case == "orthorhombic":
                w = [z3.ToReal(n) for n in wit[-3:]] if len(wit) >= 3 else None
                ex.require("pair:three-integer-roundings", z3.BoolVal(w is not None))
                if w:
                    for k in range(3):
                        L = B(4 * k)
                        ex.require(f"pair:congruence[{k}]:delta=(x_i-x_j)-n*L", delta[k] == diff[k] - w[k] * L)
                        ex.require(f"pair:wrap-bound[{k}]:|delta|<=L/2", z3.And(delta[k] <= L / 2, -delta[k] <= L / 2))
            elif case.startswith("triclinic"):
                w = [z3.ToReal(n) for n in wit[-3:]] if len(wit) >= 6 else None
                ex.require("pair:three-integer-roundings-after-box-reduction", z3.BoolVal(w is not None))
                if w:
                    b1, b2, b3 = ([rterm(x) for x in interp.getvar(env, nm).v[:3]] for nm in ("box_vec1", "box_vec2", "box_vec3"))
                    w3, w2, w1 = w
                    for k in range(3):
                        ex.require(f"pair:congruence[{k}]:delta=(x_i-x_j)-w3*c-w2*b-w1*a", delta[k] == diff[k] - w3 * b3[k] - w2 * b2[k] - w1 * b1[k])
                    rc = interp.getvar(env, "recip_box_size")
                    RC = [rterm(rc.region.read(k)) for k in range(3)]
                    half = z3.RealVal("1/2")
                    absle = lambda x, hh: z3.And(x <= hh, -x <= hh)
                    WB = ctx.lemma("wrap-bound:|n-r*R|<=1/2,B>0,R*B=1=>|r-n*B|<=B/2", 4,
                                   lambda n, r, Rr, Bb: z3.Implies(z3.And(absle(n - r * Rr, half), Bb > 0, Rr * Bb == 1), absle(r - n * Bb, Bb / 2)))
                    rz = [diff[k] - w3 * b3[k] for k in range(3)]
                    ry = [rz[k] - w2 * b2[k] for k in range(3)]
                    # recip_box_size holds 1/diagonal of the box AS GIVEN; the reduction keeps the diagonal (b_y, c_z unchanged, a untouched)
                    ex.require("pair:recip_box_size[k]*diagonal[k]=1", z3.And(RC[0] * b1[0] == 1, RC[1] * b2[1] == 1, RC[2] * b3[2] == 1))
                    ex.assume(z3.And(RC[0] * b1[0] == 1, RC[1] * b2[1] == 1, RC[2] * b3[2] == 1))
                    WB(w3, diff[2], RC[2], b3[2])
                    WB(w2, rz[1], RC[1], b2[1])
                    WB(w1, ry[0], RC[0], b1[0])
                    ex.require("pair:wrap-bound:|delta_z|<=c_z/2", absle(delta[2], b3[2] / 2))
                    ex.require("pair:wrap-bound:|delta_y|<=b_y/2", absle(delta[1], b2[1] / 2))
                    ex.require("pair:wrap-bound:|delta_x|<=a_x/2", absle(delta[0], b1[0] / 2))
        return v

    c.decl_hook = decl_hook
    out = ctx.ccall("_compute_neighbors", Ptr(xyz, 0), na, cutoff, StdVector(q), StdVector(h), NULL if case == "no-box" else Ptr(box, 0))
    ctx.ensure("returns-normally", out.exc is None)
    if out.exc is not None:
        return
    res = out.value.items
    ctx.cover("some-neighbour" if res else "no-neighbour")
    c2 = rterm(cutoff) * rterm(cutoff)
    # reconstruct, from the pairs actually evaluated on this path, what the specification demands
    expect = []
    pos = 0
    for hk in h:
        evs = [e for e in events if e["i"] is hk]
        hit = z3.Or([e["d2"] < c2 for e in evs]) if evs else z3.BoolVal(False)
        # pairs not evaluated: either the query atom is the haystack atom itself, or the loop stopped at a hit
        tried = len(evs)
        selfpairs = sum(1 for qq in q if ctx.ex.feasible([term(qq) == term(hk)]) and not ctx.ex.feasible([term(qq) != term(hk)]))
        included = pos < len(res) and res[pos] is hk
        if included:
            ctx.ensure(f"included-atom-has-a-query-atom-within-cutoff[{h.index(hk)}]", hit)
            ctx.ensure(f"self-pair-never-evaluated[{h.index(hk)}]", z3.And(*[term(e["j"]) != term(hk) for e in evs]) if evs else z3.BoolVal(True))
            pos += 1
        else:
            ctx.ensure(f"excluded-atom-has-no-query-atom-within-cutoff[{h.index(hk)}]", z3.Not(hit))
            ctx.ensure(f"excluded-only-after-all-query-atoms-were-tried[{h.index(hk)}]", z3.BoolVal(tried + selfpairs == len(q)))
    ctx.ensure("result-is-a-subsequence-of-the-haystack-in-order-without-extras", z3.BoolVal(pos == len(res)))
    ctx.ensure("inputs-untouched", z3.BoolVal(not xyz.writes and not box.writes))


# one registration per case so that the cases are explored in parallel
for _c in CASES:
    contract("C10", "mdtraj/geometry/src/neighbors.cpp", "_compute_neighbors", cases=[_c], lang="c", replay="neighbors",
             covers=["some-neighbour", "no-neighbour"], max_paths=400)(compute_neighbors)
