"""C01 -- the DCD codec (mdtraj/formats/dcd/src/dcdplugin.c): a frame written by write_dcdstep is read back by read_dcdstep.

Both C functions are executed from clang's AST against ONE model of the file: a sequence of written items
(byte offset, byte length, content) -- 4-byte integers and blocks copied from a memory region; offsets and lengths are symbolic
(4 * natoms).  fio_fwrite / fio_write_int32 / fio_fseek append or position, fio_fread / fio_readv must find, at the current
offset, an item of exactly the requested length (obligation) and deliver its content.  Encode/decode pair, for every atom count:

   write_dcdstep(X, Y, Z, unitcell) at offset P  then  read_dcdstep at offset P  returns success, X' = X, Y' = Y, Z' = Z (whole
   blocks), unitcell'[i] = (float) unitcell[i], and consumes exactly the bytes written (so consecutive frames line up, and the number of
   bytes equals what skip_dcdstep skips: its contract in C18); the header's frame counter and step are updated at their fixed offsets
   and the file is left positioned at its end.
Cases: with and without a unit cell (the two layouts mdtraj's writer produces).  reverseEndian = 0, no fixed atoms.
Assumed: fastio.h's fio_* wrappers behave as fwrite/fread/fseek/readv on a byte stream; float <-> bytes is the identity on values.
"""
import z3

from mdvc import core
from mdvc.cinterp import AddrOf, NULL, Ptr, Region, StructObj
from mdvc.core import SInt, SReal, rterm, term
from mdvc.verify import contract

INC = dict(include=("mdtraj/formats/dcd/include", "mdtraj/formats/dcd/src"))
FILE = "mdtraj/formats/dcd/src/dcdplugin.c"


class SegFile:
    def __init__(self, ex, start):
        self.ex = ex
        self.items = []  # (offset term, nbytes term, kind, payload)
        self.pos = start
        self.end = start
        self.log = []

    def _same(self, a, b):
        return z3.is_true(z3.simplify(term(a) == term(b)))

    def _advance(self, n):
        self.pos = SInt(z3.simplify(term(self.pos) + term(n)))
        if self.ex.feasible([term(self.pos) > term(self.end)]) and not self.ex.feasible([term(self.pos) <= term(self.end)]):
            self.end = self.pos

    def write_int(self, v):
        self.items.append((self.pos, 4, "int", v))
        self._advance(4)

    def write_block(self, ptr, nbytes):
        self.items.append((self.pos, nbytes, "block", (ptr.region, ptr.off, ptr.region.mem if ptr.region.local is None else list(ptr.region.local))))
        self._advance(nbytes)

    def find(self, nbytes, what):
        for off, n, kind, payload in reversed(self.items):
            if self._same(off, self.pos):
                self.ex.require(f"read:{what}:length-read-equals-length-written", term(n) == term(nbytes))
                return kind, payload, n
        self.ex.require(f"read:{what}:something-was-written-at-this-offset", z3.BoolVal(False))
        raise core.PathEnd()

    def seek(self, off, whence):
        w = whence if isinstance(whence, int) else None
        if w == 0:
            self.pos = off if core.is_sym(off) else SInt(z3.IntVal(int(off)))
        elif w == 1:
            self._advance(off)
        elif w == 2:
            self.pos = self.end
        else:
            raise core.Unsupported("fio_fseek whence")
        self.log.append(("seek", off, w))


def install(c, f):
    def write_int32(interp, args):
        f.write_int(args[1])
        return 0

    def fwrite(interp, args):
        ptr, size, count = args[0], args[1], args[2]
        nbytes = size * count
        if isinstance(ptr, AddrOf):  # &scalar
            f.write_int(ptr.read(0))
        else:
            f.write_block(ptr, nbytes)
        return count

    def fseek(interp, args):
        f.seek(args[1], args[2])
        return 0

    def deliver(dst, nbytes, what):
        kind, payload, n = f.find(nbytes, what)
        if kind == "int":
            dst.region.write(dst.off, payload)
        else:
            src_region, src_off, src_mem = payload
            if dst.region.local is not None:  # a small local buffer: copy element by element
                cnt = len(dst.region.local) - (dst.off if isinstance(dst.off, int) else 0)
                k = core.current().concrete_int(term(nbytes))
                es = 8 if dst.region.sort == "real" and dst.region.name == "tmp" else 4
                for i in range(k // es):
                    v = src_mem[src_off + i] if isinstance(src_mem, list) else z3.Select(src_mem, term(src_off) + i)
                    dst.region.local[dst.off + i] = v if core.is_sym(v) or isinstance(v, (int, float)) else SReal(v)
            else:
                dst.region.copied = (src_region, src_off, src_mem, n)
        f._advance(nbytes)

    def fread(interp, args):
        ptr, size, count = args[0], args[1], args[2]
        if isinstance(size, int) and size == 4 and isinstance(count, int):
            for i in range(count):
                deliver(ptr.add(i), 4, "record-marker")
        else:
            deliver(ptr, size * count, "block")
        return count

    def readv(interp, args):
        iov, cnt = args[1], args[2]
        total = 0
        for i in range(cnt):
            s = iov.region.local[iov.off + i]
            base, ln = s.fields["iov_base"], s.fields["iov_len"]
            if base.region.local is not None and core.current().concrete_int(term(ln)) is not None:
                for k in range(core.current().concrete_int(term(ln)) // 4):
                    deliver(base.add(k), 4, "record-marker")
            else:
                deliver(base, ln, "coordinates")
            total = total + ln
        return total

    c.call_models.update(fio_write_int32=write_int32, fio_fwrite=fwrite, fio_fseek=fseek, fio_fread=fread, fio_readv=readv)


def frame_roundtrip(ctx, case):
    with_cell = case
    ex = ctx.ex
    c = ctx.load_c(FILE, ["write_dcdstep", "read_dcdstep", "read_charmm_extrablock", "read_charmm_4dim"], **INC)
    c.struct_types = {"fio_iovec": ["iov_base", "iov_len"]}
    N, P0 = ctx.int("natoms"), ctx.int("frame_offset")
    ctx.assume(N >= 1, P0 >= 276)
    f = SegFile(ex, P0)
    install(c, f)
    X, Y, Z = Region("X"), Region("Y"), Region("Z")
    cell = Region("unitcell")
    cell.local = [ctx.real(f"cell{i}") for i in range(6)]
    flags = 0x01 | (0x04 if with_cell else 0)
    curframe, curstep = ctx.int("curframe"), ctx.int("curstep")
    w = ctx.ccall("write_dcdstep", "fd", curframe, curstep, N, Ptr(X, 0), Ptr(Y, 0), Ptr(Z, 0), Ptr(cell, 0) if with_cell else NULL, flags)
    ctx.ensure("write:returns-normally", w.exc is None)
    if w.exc is not None:
        return
    ctx.ensure("write:success", w.value == 0)
    frame_bytes = z3.simplify(term(f.end) - term(P0))
    marker = 4
    want = 3 * (marker + 4 * term(N) + marker) + ((marker + 48 + marker) if with_cell else 0)
    ctx.ensure("write:frame-size=the-format's(=what-skip_dcdstep-skips)", frame_bytes == want)
    ctx.ensure("write:file-left-positioned-at-its-end", term(f.pos) == term(f.end))
    hdr = {core.current().concrete_int(term(off)): v for (off, n, kind, v) in f.items if kind == "int" and core.current().concrete_int(term(off)) is not None}
    ctx.ensure("write:header-frame-counter(offset-8)-and-step(offset-20)-updated", z3.And(z3.BoolVal(8 in hdr and 20 in hdr), term(hdr.get(8, 0)) == term(curframe), term(hdr.get(20, 0)) == term(curstep)))
    # read the frame back from where it starts
    f.pos = SInt(P0.t)
    X2, Y2, Z2, cell2 = Region("X'"), Region("Y'"), Region("Z'"), Region("unitcell'")
    cell2.local = [None] * 6
    r = ctx.ccall("read_dcdstep", "fd", N, Ptr(X2, 0), Ptr(Y2, 0), Ptr(Z2, 0), Ptr(cell2, 0), 0, 1, NULL, NULL, 0, flags)
    ctx.ensure("read:returns-normally", r.exc is None)
    if r.exc is not None:
        return
    ctx.cover("round-trip")
    ctx.ensure("read:success", r.value == 0)
    for name, dst, src in (("X", X2, X), ("Y", Y2, Y), ("Z", Z2, Z)):
        cp = getattr(dst, "copied", None)
        ctx.ensure(f"read:{name}'=the-{name}-block-that-was-written(all-natoms-values)", z3.BoolVal(cp is not None and cp[0] is src and cp[2] is src.mem0)
                   if cp is None or cp[0] is not src else z3.And(term(cp[1]) == 0, term(cp[3]) == 4 * term(N)))
    if with_cell:
        for i in range(6):
            ctx.ensure(f"read:unitcell'[{i}]=unitcell[{i}]", z3.BoolVal(cell2.local[i] is not None) if cell2.local[i] is None else rterm(cell2.local[i]) == rterm(cell.local[i]))
    ctx.ensure("read:consumes-exactly-the-frame", term(f.pos) == term(P0) + want)
    ctx.ensure("inputs-not-written", not X.writes and not Y.writes and not Z.writes)


contract("C01", FILE, "write_dcdstep;read_dcdstep", cases=[True, False], lang="c", replay="codec:dcd", covers=["round-trip"], max_paths=200)(frame_roundtrip)
