"""C02 -- partial loading equals slicing the fully loaded trajectory.

read(n_frames, stride) on the array-backed file classes, for symbolic N (frames in the file), pos,
n >= 1, stride >= 1:  the frames returned are  pos, pos+stride, ...  -- exactly
count = min(n, ceil((N-pos)/stride)) of them -- and the position afterwards is min(N, pos + n*stride),
so that successive chunked reads continue the same strided sequence (this is what iterload relies on).
"""
import z3

from mdvc import core, models
from mdvc.core import SInt, smin
from mdvc.verify import contract

from . import c18


def strided_inputs(ctx):
    N, pos, n, s = ctx.int("N"), ctx.int("pos"), ctx.int("n"), ctx.int("stride")
    ctx.assume(N >= 0, pos >= 0, pos <= N, n >= 1, s >= 1)
    return N, pos, n, s


def expected_count(N, pos, n, s, limited=True):
    """number of frames  pos + j*s < N  with j < n  (as a z3 term, via its defining inequalities)"""
    return None


def register_strided(file, cls, factory, fields_of, posfield, replay):
    @contract("C02", file, f"{cls}.read", cases=["n+stride", "rest+stride"], covers=["returned-frames"], replay=replay)
    def _read(ctx, case):
        N, pos, n, s = strided_inputs(ctx)
        h, bases = factory(ctx, N, pos)
        if case == "n+stride":
            out = ctx.call_method(h, "read", n_frames=n, stride=s)
        else:
            out = ctx.call_method(h, "read", stride=s)
        ctx.ensure("no-exception", not out.raised)
        if out.raised:
            return
        newpos = core.term(h.fields[posfield])
        Nt, pt, nt, st = (core.term(x) for x in (N, pos, n, s))
        vals = fields_of(out.value)
        if vals is None:
            ctx.ensure("empty-only-at-end", pt == Nt)
            ctx.ensure("position-stays-at-end", newpos == Nt)
            return
        ctx.cover("returned-frames")
        # the count c of frames selected is characterised without division:
        #   frames pos + j*stride for j < c are inside the file, c is maximal subject to c <= n
        for name, base in bases.items():
            sel = vals.get(name)
            if not isinstance(sel, models.FrameSel):
                ctx.ensure(f"{name}:is-frames", False)
                continue
            c = core.term(sel.count)
            ctx.ensure(f"{name}:field", sel.base is base)
            ctx.ensure(f"{name}:starts-at-pos", z3.Implies(c > 0, core.term(sel.start) == pt))
            ctx.ensure(f"{name}:step-is-stride", z3.Implies(c > 1, core.term(sel.step) == st))
            ctx.ensure(f"{name}:all-selected-frames-inside-file", z3.Implies(c > 0, pt + (c - 1) * st < Nt))
            if case == "n+stride":
                ctx.ensure(f"{name}:at-most-n-frames", c <= nt)
                ctx.ensure(f"{name}:maximal(no-frame-left-out)", z3.Or(c == nt, pt + c * st >= Nt))
            else:
                ctx.ensure(f"{name}:maximal(no-frame-left-out)", pt + c * st >= Nt)
            ctx.ensure(f"{name}:nonnegative-count", c >= 0)
        if case == "n+stride":
            want = z3.If(pt + nt * st <= Nt, pt + nt * st, Nt)
            ctx.ensure("position==min(N,pos+n*stride)", newpos == want)
        else:
            ctx.ensure("position==N", newpos == Nt)


register_strided("mdtraj/formats/hdf5.py", "HDF5TrajectoryFile", c18._h5_factory, c18._h5_fields, "_frame_index", "partial:h5")
register_strided("mdtraj/formats/netcdf.py", "NetCDFTrajectoryFile", c18._nc_factory, c18._nc_fields, "_frame_index", "partial:nc")


# ---------------------------------------------------------------------------------------------
# iterload: generator; the chunk loop is cut at its invariant
#   inv:  handle position p == min(N, skip + k*chunk*stride)   (k = number of chunks yielded so far, ghost)
# read_as_traj is used through its contract (the postcondition proved above for the file classes):
#   returns c frames  p, p+stride, ...  with c<=chunk, maximal; position' = min(N, p + chunk*stride).
from mdvc.pyinterp import LoopSpec, Namespace, Obj, OpaqueModule  # noqa: E402
from mdvc.tarr import KeyTok  # noqa: E402
from . import trajmodel as TM  # noqa: E402


class TrajTok:
    """abstract result of read_as_traj: frames start + j*step (j < count) restricted to `atoms`"""

    def __init__(self, start, count, step, atoms, top):
        self.start, self.count, self.step, self.atoms, self.top = start, count, step, atoms, top

    def sym_len(self, interp):
        return self.count

    def sym_getitem(self, interp, k):
        t = TrajTok(self.start, self.count, self.step, self.atoms, self.top)
        t.parent, t.key = self, k
        return t

    parent = None
    key = None


class CursorFile:
    """file object by its cursor contract (C18/C02 postconditions of the real classes)"""

    def __init__(self, ctx, N, kind):
        self.ctx, self.N, self.pos, self.kind = ctx, N, SInt(z3.IntVal(0)), kind
        self.calls = []

    def sym_getattr(self, interp, name):
        if name == "__enter__":
            return lambda: self
        if name == "__exit__":
            return lambda *a: None
        if name == "seek":
            def seek(k, whence=0):
                self.ctx.ex.require("seek-target-in-range", z3.And(core.term(k) >= 0, core.term(k) <= core.term(self.N)))
                self.pos = k
            return seek
        if name == "read_as_traj":
            def rat(*a, n_frames=None, stride=None, atom_indices=None, **kw):
                ex = self.ctx.ex
                c = SInt(z3.Int(core.fresh_name("c")))
                p, N, n, s = core.term(self.pos), core.term(self.N), core.term(n_frames), core.term(stride)
                ct = c.t
                ex.require("read:n_frames>=1", n >= 1)
                ex.require("read:stride>=1", s >= 1)
                ex.assume(z3.And(ct >= 0, ct <= n, z3.Implies(ct > 0, p + (ct - 1) * s < N), z3.Or(ct == n, p + ct * s >= N)))
                start = self.pos
                self.pos = SInt(z3.If(p + n * s <= N, p + n * s, N))
                t = TrajTok(start, c, stride, atom_indices, a[0] if a else None)
                self.calls.append((a, dict(n_frames=n_frames, stride=stride, atom_indices=atom_indices, **kw), t))
                return t
            return rat
        raise core.Unsupported("file." + name)


def iterload_env(ctx, N, ext):
    log = []
    TM.install_trajectory_env(ctx, log, ctx.interp.repo)
    mod = ctx.module("mdtraj/core/trajectory.py")
    files = []

    def open_model(interp, args, kwargs):
        f = CursorFile(ctx, N, ext)
        f.open_kwargs = kwargs
        files.append(f)
        return f

    loads = []

    def load_model(interp, args, kwargs):
        loads.append((args, kwargs))

        class Loaded(TrajTok):
            def sym_getitem(self_, interp_, k):
                t = TrajTok.sym_getitem(self_, interp_, k)
                ctx.ghost.setdefault("pdb_sliced", t)
                return t

        return Loaded(0, ctx.int("Lall"), kwargs.get("stride", 1), kwargs.get("atom_indices"), None)

    ctx.interp.call_models["mdtraj.core.trajectory.open"] = open_model
    ctx.interp.call_models["mdtraj.core.trajectory.load"] = load_model
    ctx.interp.call_models["mdtraj.core.trajectory._parse_topology"] = lambda i, a, k: TM.TopologyTok(7, "top")
    return mod, files, loads


@contract("C02", "mdtraj/core/trajectory.py", "iterload", cases=[".xtc", ".h5", ".mdcrd"], covers=["finished"],
          replay="partial:iterload")
def iterload_loop(ctx, case):
    ext = case
    N, chunk, stride, skip = ctx.int("N"), ctx.int("chunk"), ctx.int("stride"), ctx.int("skip")
    ctx.assume(N >= 0, chunk >= 1, stride >= 1, skip >= 0, skip <= N)
    mod, files, loads = iterload_env(ctx, N, ext)
    k = ctx.int("k")  # ghost: chunks yielded before the arbitrary iteration
    atoms = KeyTok("atoms", advanced=True)
    ctx.interp.call_models["mdtraj.utils.validation.cast_indices"] = lambda i, a, kw: a[0]

    def havoc(interp, env, entry):
        f = env.lookup("f")
        if not entry:
            f.pos = SInt(z3.Int("p"))
        return {"f": f}

    def invariant(interp, env, g):
        f = g["f"]
        target = core.term(skip) + core.term(k) * core.term(chunk) * core.term(stride)
        Nt = core.term(N)
        kk = core.term(k) if g.get("advanced") is None else core.term(k) + 1
        target = core.term(skip) + kk * core.term(chunk) * core.term(stride)
        ent = []
        if g.get("entry_check"):
            return [("position==min(N,skip+k*chunk*stride)", core.term(f.pos) == core.term(skip))]
        return [("position==min(N,skip+k*chunk*stride)", core.term(f.pos) == z3.If(target <= Nt, target, Nt)), ("k>=0", kk >= 0)]

    def havoc2(interp, env, entry=False):
        g = havoc(interp, env, entry)
        if entry:
            g["entry_check"] = True
        return g

    def advance(interp, env, g):
        g["advanced"] = True

    ctx.interp.loop_specs[("mdtraj.core.trajectory.iterload", 2)] = LoopSpec(havoc2, invariant, advance=advance)
    kw = {} if ext in (".h5",) else {"top": "top.pdb"}
    out = ctx.call(mod.globals["iterload"], "/ghost/t" + ext, chunk=chunk, stride=stride, skip=skip, atom_indices=atoms, **kw)
    ctx.ensure("no-exception", not out.raised)
    if out.raised or not files:
        return
    f = files[0]
    ys = out.value.items
    if "loop-preservation-path" in ctx.ex.path.tags:
        return
    # this path left the loop by `return` from an arbitrary iteration (or never yielded in it)
    if f.calls:
        t = f.calls[-1][2]
        kwargs = f.calls[-1][1]
        ctx.ensure("read_as_traj-gets-chunk,stride,atom_indices", kwargs["n_frames"] is chunk and kwargs["stride"] is stride and kwargs["atom_indices"] is atoms)
        if ext == ".mdcrd":
            ctx.ensure("mdcrd-opened-with-n_atoms", f.open_kwargs.get("n_atoms") == 7)
        if ys and ys[-1] is t:
            ctx.cover("chunk-yielded")
        else:
            ctx.cover("finished")
            ctx.ensure("finishes-only-when-nothing-is-left", core.term(t.start) >= core.term(N))


@contract("C02", "mdtraj/core/trajectory.py", "iterload", cases=["per-iteration"], covers=["chunk-yielded"], replay="partial:iterload")
def iterload_iteration(ctx, case):
    """the arbitrary iteration: what is yielded in iteration k"""
    N, chunk, stride, skip = ctx.int("N"), ctx.int("chunk"), ctx.int("stride"), ctx.int("skip")
    ctx.assume(N >= 0, chunk >= 1, stride >= 1, skip >= 0, skip <= N)
    mod, files, loads = iterload_env(ctx, N, ".xtc")
    k = ctx.int("k")
    ctx.assume(k >= 0)
    atoms = KeyTok("atoms", advanced=True)
    ctx.interp.call_models["mdtraj.utils.validation.cast_indices"] = lambda i, a, kw: a[0]
    state = {}

    def havoc(interp, env, entry=False):
        f = env.lookup("f")
        if not entry:
            f.pos = SInt(z3.Int("p"))
        return {"f": f, "entry": entry}

    def invariant(interp, env, g):
        f = g["f"]
        if g["entry"]:
            return [("entry:position==skip", core.term(f.pos) == core.term(skip))]
        kk = core.term(k) + (1 if g.get("adv") else 0)
        target = core.term(skip) + kk * core.term(chunk) * core.term(stride)
        return [("position==min(N,skip+k*chunk*stride)", core.term(f.pos) == z3.If(target <= core.term(N), target, core.term(N)))]

    def advance(interp, env, g):
        g["adv"] = True
        f = g["f"]
        t = f.calls[-1][2]
        ex = ctx.ex
        st = core.term(skip) + core.term(k) * core.term(chunk) * core.term(stride)
        c = core.term(t.count)
        ex.require("yielded-chunk-starts-at-frame skip+k*chunk*stride", core.term(t.start) == st)
        ex.require("yielded-chunk-is-nonempty", c >= 1)
        ex.require("yielded-chunk-has-chunk-frames-or-is-the-last", z3.Or(c == core.term(chunk), core.term(f.pos) == core.term(N)))
        ex.require("yielded-chunk-stride", core.term(t.step) == core.term(stride))
        ex.require("yielded-chunk-atoms", z3.BoolVal(t.atoms is atoms))
        state["yielded"] = True
        ctx.cover("chunk-yielded")

    ctx.interp.loop_specs[("mdtraj.core.trajectory.iterload", 2)] = LoopSpec(havoc, invariant, advance=advance)
    out = ctx.call(mod.globals["iterload"], "/ghost/t.xtc", chunk=chunk, stride=stride, skip=skip, atom_indices=atoms, top="top.pdb")
    ctx.ensure("no-exception", not out.raised)


@contract("C02", "mdtraj/core/trajectory.py", "iterload", cases=["chunk=0", "pdb"], covers=["delegated"], replay="partial:iterload")
def iterload_delegating(ctx, case):
    """chunk == 0 and the PDB branch delegate to load(): stride and atom_indices must reach it"""
    N, stride, skip = ctx.int("N"), ctx.int("stride"), ctx.int("skip")
    ctx.assume(N >= 0, stride >= 1, skip >= 0, skip <= N)
    ext = ".h5" if case == "chunk=0" else ".pdb"
    mod, files, loads = iterload_env(ctx, N, ext)
    atoms = KeyTok("atoms", advanced=True)
    ctx.interp.call_models["mdtraj.utils.validation.cast_indices"] = lambda i, a, kw: a[0]
    chunk = 0 if case == "chunk=0" else 3
    try:
        out = ctx.call(mod.globals["iterload"], "/ghost/t" + ext, chunk=chunk, stride=stride, skip=skip, atom_indices=atoms)
    except core.Unsupported:
        out = None
    ctx.cover("delegated")
    ctx.ensure("load-called-once", len(loads) == 1)
    if len(loads) != 1:
        return
    a, kw = loads[0]
    ctx.ensure("atom_indices-reach-load", kw.get("atom_indices") is atoms)
    # the frames delivered must be the raw frames skip, skip+stride, ...: with load(stride=sl)[a::c] the raw frames are
    # sl*(a + j*c), so sl*a == skip and sl*c == stride must hold for all skip, stride
    toks = [t for t in ctx.ghost.get("sliced", [])]
    ys = out.value.items if out is not None and not out.raised else []
    sl = kw.get("stride", 1) or 1
    first = None
    if case == "chunk=0":
        ctx.ensure("one-chunk-yielded", len(ys) == 1 and isinstance(ys[0], TrajTok))
        first = ys[0] if ys and isinstance(ys[0], TrajTok) else None
    else:
        first = ctx.ghost.get("pdb_sliced")
    key = first.key if (first is not None and first.key is not None) else slice(None)
    a = key.start if key.start is not None else 0
    c = key.step if key.step is not None else 1
    ctx.ensure("skip-counts-raw-frames", core.term(sl) * core.term(a) == core.term(skip))
    ctx.ensure("stride-applied-once", core.term(sl) * core.term(c) == core.term(stride))
    ctx.ensure("open-ended", key.stop is None)


# ---------------------------------------------------------------------------------------------
# load_pdb(frame=i): the single frame carries the time the full load gives that frame (full load: time = arange(N))
from mdvc.npreal import RVec  # noqa: E402
from mdvc.npmodel import NumpyT  # noqa: E402
from mdvc.tarr import TArr  # noqa: E402


class _NumpyArange(NumpyT):
    def np_arange(self, interp, n, *a, **k):
        if isinstance(n, int):
            return RVec(list(range(n)))
        return super().np_arange(interp, n, *a, **k)


class _PDBFileStub:
    def __init__(self, N, A):
        self.positions = TArr("pdb.positions", shape=(N, A, 3))
        self.topology = TM.TopologyTok(A, "pdbtop")
        self.unitcell_lengths = None
        self.unitcell_angles = None
        self.distance_unit = "angstroms"

    def sym_getattr(self, interp, name):
        if name == "__enter__":
            return lambda: self
        if name == "__exit__":
            return lambda *a: None
        return getattr(self, name)


@contract("C02", "mdtraj/formats/pdb/pdbfile.py", "load_pdb", cases=["frame"], replay="partial:pdb")
def load_pdb_frame(ctx, case):
    N, frame = ctx.int("N"), ctx.int("frame")
    ctx.assume(N >= 1, frame >= 0, frame < N)
    ctx.interp.import_models["numpy"] = _NumpyArange()
    made = []

    class TrajStub:
        def sym_call(self, interp, args, kwargs):
            made.append(kwargs)
            return Namespace("traj", unitcell_lengths=None, **{k: v for k, v in kwargs.items() if k != "unitcell_lengths"})

        def sym_getattr(self, interp, name):
            if name == "_distance_unit":
                return "nanometers"
            raise core.Unsupported(name)

    ctx.interp.import_models["mdtraj"] = Namespace("mdtraj", Trajectory=TrajStub())
    ctx.interp.import_models["mdtraj.core"] = Namespace("core")
    mod = ctx.module("mdtraj/formats/pdb/pdbfile.py")
    stub = _PDBFileStub(N, 5)
    ctx.interp.call_models["mdtraj.formats.pdb.pdbfile.PDBTrajectoryFile"] = lambda i, a, k: stub
    out = ctx.call(mod.globals["load_pdb"], "/ghost/x.pdb", frame=frame)
    ctx.ensure("no-exception", not out.raised)
    if out.raised or not made:
        return
    kw = made[0]
    t = kw["time"]
    ctx.ensure("one-time-stamp", isinstance(t, RVec) and len(t.e) == 1)
    if isinstance(t, RVec) and len(t.e) == 1:
        # full load gives frame i the time i (time = arange(N)); the single-frame load must agree
        ctx.ensure("time-of-frame-i-equals-full-load-time[i]", core.term(t.e[0]) == core.term(frame))
    xyz = kw["xyz"]
    exp = stub.positions.sym_getitem(None, ([frame], slice(None), slice(None)))
    ctx.ensure("coordinates-are-frame-i-in-nm", isinstance(xyz, TArr) and xyz.base == "pdb.positions" and abs(xyz.scale - 0.1) < 1e-12)


# =====================================================================================================
# md.load: dispatch to the format's loader and joining of file lists
LOAD_CASES = [(ext, nfiles, with_atoms) for ext in (".xtc", ".h5", ".pdb") for nfiles in (1, 3) for with_atoms in (False, True)]


@contract("C02", "mdtraj/core/trajectory.py", "load", cases=LOAD_CASES, covers=["returned"], replay="partial:load")
def load_dispatch(ctx, case):
    """every file is handed to the loader registered for the common extension exactly once, in order, with the caller's stride /
    atom_indices / frame unchanged and the SAME parsed topology; a single file's result is returned as is; several files are
    joined in order (topology taken from the first); the caller's topology object is not left modified."""
    ext, nfiles, with_atoms = case
    log = []
    TM.install_trajectory_env(ctx, log, ctx.interp.repo)
    mod = ctx.module("mdtraj/core/trajectory.py")
    files = [f"/data/part{k}{ext}" for k in range(nfiles)]
    class CallerTop:
        """the caller's topology: a plain object (md.load temporarily patches its `subset` attribute)"""
        n_atoms = _numAtoms = 7

        def subset(self, idx):
            return ("subset-of-caller-top", idx)

    top = CallerTop()
    parsed = []

    def parse_topology(interp, args, kwargs):
        parsed.append((args, kwargs))
        return top

    ctx.interp.call_models["mdtraj.core.trajectory._parse_topology"] = parse_topology
    ctx.interp.call_models["mdtraj.core.trajectory._assert_files_exist"] = lambda i, a, k: None
    ctx.interp.call_models["mdtraj.core.trajectory._assert_files_or_dirs_exist"] = lambda i, a, k: None
    calls = []

    class Loaded:
        def __init__(self, k):
            self.k = k
            self.topology = ("topology-of-file", k)

        def sym_getattr(self, interp, name):
            if name == "topology":
                return self.topology
            raise core.Unsupported("loaded." + name)

        def sym_setattr(self, interp, name, v):
            if name == "topology":
                self.topology = v
                return
            raise core.Unsupported("loaded." + name)

    def loader(filename, **kwargs):
        calls.append((filename, dict(kwargs), "subset" in getattr(kwargs.get("top"), "__dict__", {})))
        return Loaded(len(calls) - 1)

    loader.__name__ = "load_" + ext[1:]
    registry = mod.globals["FormatRegistry"]
    registry.loaders[ext] = loader
    joined = []

    def join_model(interp, args, kwargs):
        joined.append((list(args[0]), kwargs))
        return ("joined", tuple(t.k for t in args[0]))

    ctx.interp.call_models["mdtraj.core.trajectory.join"] = join_model
    stride = ctx.int("stride")
    ctx.assume(stride >= 1)
    atom_indices = TArr("atom_indices", shape=(2,), dtype="int32") if with_atoms else None
    kw = dict(stride=stride, top=top)
    if with_atoms:
        kw["atom_indices"] = atom_indices
    out = ctx.call(mod.globals["load"], files if nfiles > 1 else files[0], **kw)
    ctx.ensure("no-exception", not out.raised)
    if out.raised:
        return
    ctx.cover("returned")
    ctx.ensure("one-loader-call-per-file,in-order", [c[0] for c in calls] == files)
    for (fn, k, _patched) in calls:
        ctx.ensure(f"{fn}:stride-passed-unchanged", k.get("stride") is stride)
        ctx.ensure(f"{fn}:atom_indices-passed-unchanged", k.get("atom_indices") is atom_indices)
        ctx.ensure(f"{fn}:the-parsed-topology-is-passed", k.get("top") is top)
    ctx.ensure("topology-parsed-once-from-the-caller's-top", len(parsed) == 1 and parsed[0][0][0] is top)
    if nfiles == 1:
        ctx.ensure("single-file:the-loader's-result-is-returned", isinstance(out.value, Loaded) and out.value.k == 0 and not joined)
    else:
        ctx.ensure("file-list:results-joined-once,in-order", len(joined) == 1 and [t.k for t in joined[0][0]] == list(range(nfiles)) and out.value == ("joined", tuple(range(nfiles))))
        if joined:
            ctx.ensure("file-list:first-trajectory-keeps-its-topology", joined[0][0][0].topology == ("topology-of-file", 0))
    ctx.ensure("caller's-topology-object-left-unmodified(no-patched-subset)", "subset" not in getattr(top, "__dict__", {}))


# strided reads, load_frame and iterload(skip) of DCD files skip frames with skip_dcdstep: contract shared with C18
from . import c18 as _c18  # noqa: E402

contract("C02", "mdtraj/formats/dcd/src/dcdplugin.c", "skip_dcdstep", lang="c", cases=_c18.FLAGS, replay="partial:dcd", covers=["skipped"])(_c18.skip_dcdstep)
