"""C01 -- the TRR codec (mdtraj/formats/xtc/src/xdrfile_trr.c): write_trr followed by read_trr.

XDR routines are bidirectional: `xdrfile_read_int(&v, n, xd)` WRITES v when the stream is open for writing.  The stream model is a
sequence of typed items (int / float / double / string, with their counts); in write mode every call appends, in read mode every
call must find an item of the same type and count (obligation) and delivers it.  For 1..3 atoms (concrete: the copy loops are
unrolled), with/without box and velocities+forces, symbolic values:

   read_trr after write_trr returns success, the same step, time, lambda, box, coordinates (velocities, forces), consumes the
   whole record, and the header announces float precision and the sizes the format prescribes (x_size = natoms*3*4, box_size = 36).
Assumed: the xdrfile_* primitives encode and decode consistently (xdrfile.c is not under contract); float<->XDR is the identity.
"""
import z3

from mdvc import core
from mdvc.cinterp import AddrOf, NULL, Ptr, Region, StructObj, enum_id
from mdvc.core import SInt, SReal, rterm, term
from mdvc.verify import contract

INC = dict(include=("mdtraj/formats/xtc/include", "mdtraj/formats/xtc/src"))
FILE = "mdtraj/formats/xtc/src/xdrfile_trr.c"
HDR = ["bDouble", "ir_size", "e_size", "box_size", "vir_size", "pres_size", "top_size", "sym_size", "x_size", "v_size", "f_size", "natoms", "step", "nre", "tf",
       "lambdaf", "td", "lambdad"]


class Stream:
    def __init__(self, ex):
        self.ex, self.items, self.mode, self.rp = ex, [], "w", 0

    def xfer(self, kind, ptr, n):
        n = n if isinstance(n, int) else core.current().concrete_int(term(n))
        get = (lambda k: ptr.read(0)) if isinstance(ptr, AddrOf) else (lambda k: ptr.region.read(ptr.off + k))
        put = (lambda k, v: ptr.write(0, v)) if isinstance(ptr, AddrOf) else (lambda k, v: ptr.region.write(ptr.off + k, v))
        if self.mode == "w":
            self.items.append((kind, n, [get(k) for k in range(n)]))
            return n
        if self.rp >= len(self.items):
            self.ex.require("read:stream-not-exhausted", z3.BoolVal(False))
            raise core.PathEnd()
        k0, n0, vals = self.items[self.rp]
        self.ex.require(f"read:item{self.rp}-has-the-type-and-count-that-was-written({k0}x{n0})", z3.BoolVal(k0 == kind and n0 == n))
        if k0 != kind or n0 != n:
            raise core.PathEnd()
        self.rp += 1
        for k in range(n):
            put(k, vals[k])
        return n


def install(c, st):
    c.call_models["xdrfile_read_int"] = lambda i, a: st.xfer("int", a[0], a[1])
    c.call_models["xdrfile_read_float"] = lambda i, a: st.xfer("float", a[0], a[1])
    c.call_models["xdrfile_read_double"] = lambda i, a: st.xfer("double", a[0], a[1])

    def write_string(interp, a):
        st.items.append(("string", len(a[0]) + 1, [a[0]]))
        return len(a[0]) + 1

    def read_string(interp, a):
        k0, n0, vals = st.items[st.rp]
        st.ex.require("read:a-string-was-written-here", z3.BoolVal(k0 == "string"))
        st.rp += 1
        return n0

    c.call_models["xdrfile_write_string"] = write_string
    c.call_models["xdrfile_read_string"] = read_string


CASES = [(n, box, vf) for n in (1, 2, 3) for box in (True, False) for vf in (False, True) if not (n == 3 and vf)]


def trr_roundtrip(ctx, case):
    natoms, has_box, has_vf = case
    ex = ctx.ex
    c = ctx.load_c(FILE, ["write_trr", "read_trr", "do_trn", "do_trnheader", "do_htrn", "nFloatSize"], **INC)
    c.struct_types = {"t_trnheader": HDR}
    c.type_sizes = {"matrix": 36, "rvec": 12}
    c.type_arrays = {"rvec": "float[3]"}
    st = Stream(ex)
    install(c, st)

    def arr(name, n):
        r = Region(name)
        r.mem0 = r.mem
        return r
    X, V, F, B = arr("x", natoms * 3), arr("v", natoms * 3), arr("f", natoms * 3), arr("box", 9)
    step, t, lam = ctx.int("step"), ctx.real("t"), ctx.real("lambda")
    w = ctx.ccall("write_trr", "xd", natoms, step, t, lam, Ptr(B, 0) if has_box else NULL, Ptr(X, 0), Ptr(V, 0) if has_vf else NULL, Ptr(F, 0) if has_vf else NULL)
    ctx.ensure("write:returns-normally", w.exc is None)
    if w.exc is not None:
        return
    for r_ in (X, B, V, F):
        r_.mem_after_write = r_.mem
    ctx.ensure("write:success(exdrOK)", w.value == enum_id("exdrOK"))
    ints = [v for (k, n, vals) in st.items if k == "int" for v in vals]
    ctx.ensure("write:record-starts-with-the-magic-number-1993", len(ints) > 0 and core.term(ints[0]) == 1993)
    # header sizes, in the order of the format: ir e box vir pres top sym x v f natoms step nre
    sizes = ints[2:15] if len(ints) >= 15 else []
    want = [0, 0, 36 if has_box else 0, 0, 0, 0, 0, natoms * 12, natoms * 12 if has_vf else 0, natoms * 12 if has_vf else 0, natoms]
    ctx.ensure("write:header-sizes(box=36-bytes,x/v/f=natoms*12-bytes:float-precision)", len(sizes) == 13 and all(core.term(a) == b for a, b in zip(sizes[:11], want)))
    # read it back
    st.mode, st.rp = "r", 0
    X2, V2, F2, B2 = arr("x'", 0), arr("v'", 0), arr("f'", 0), arr("box'", 0)
    cell = lambda name: (lambda r: (r, Ptr(r, 0)))(Region(name))
    (sr, sp), (tr_, tp), (lr, lp) = cell("step'"), cell("t'"), cell("lambda'")
    sr.sort = "int"
    sr.mem = z3.Array("step'", z3.IntSort(), z3.IntSort())
    r = ctx.ccall("read_trr", "xd", natoms, sp, tp, lp, Ptr(B2, 0) if has_box else NULL, Ptr(X2, 0), Ptr(V2, 0) if has_vf else NULL, Ptr(F2, 0) if has_vf else NULL)
    ctx.ensure("read:returns-normally", r.exc is None)
    if r.exc is not None:
        return
    ctx.cover("round-trip")
    ctx.ensure("read:success(exdrOK)", r.value == enum_id("exdrOK"))
    ctx.ensure("read:whole-record-consumed", st.rp == len(st.items))
    ctx.ensure("read:step,time,lambda", z3.And(z3.Select(sr.mem, 0) == step.t, z3.Select(tr_.mem, 0) == t.t, z3.Select(lr.mem, 0) == lam.t))
    pairs = [("x", X2, X, natoms * 3)] + ([("box", B2, B, 9)] if has_box else []) + ([("v", V2, V, natoms * 3), ("f", F2, F, natoms * 3)] if has_vf else [])
    for name, dst, src, n in pairs:
        ctx.ensure(f"read:{name}'={name}(every-component)", z3.And(*[z3.Select(dst.mem, k) == z3.Select(src.mem0, k) for k in range(n)]))
    # (the writer stores the box back into itself after encoding it: values, not write sets, are compared)
    ctx.ensure("inputs-unchanged-by-the-writer", z3.And(*[z3.Select(r_.mem_after_write, k) == z3.Select(r_.mem0, k) for r_, n in ((X, natoms * 3), (B, 9), (V, natoms * 3), (F, natoms * 3)) for k in range(n)]))


contract("C01", FILE, "write_trr;read_trr", cases=CASES, lang="c", replay="codec:trr", covers=["round-trip"], max_paths=200)(trr_roundtrip)
