"""C12 -- the translation layer of the selection language (mdtraj/core/selection.py) under contract.

The parser is pyparsing (a dependency: its documented semantics are ASSUMED) driving the token classes of selection.py, which build a
Python `ast` expression; `parse_selection.__call__` rewrites bare names, compiles the lambda and unparses the source.  The property is
compositional, so it is decided by structural induction over expression trees, one contract per constructor:

  * the denotation of a tree is what the REAL pipeline (`parse_selection.__call__`: `.ast()` of the real classes, the real `_RewriteNames`,
    `ast.unparse`, the compiled lambda -- evaluated by the interpreter of this engine on the real `ast` nodes) returns for a SYMBOLIC atom
    (every attribute an unconstrained Bool / Int / Real / abstract string);
  * operands below the constructor under contract are ABSTRACT (an operand whose denotation is an unconstrained value), so every clause
    holds for operands of any depth: "the denotation of K(op, a, b) is op(denotation a, denotation b)";
  * leaves: every documented keyword and alias denotes its documented attribute; literals denote their value (numbers, bare words,
    single/double-quoted strings, quotes inside quotes);
  * refusals: a literal used as a truth value / compared with a literal / tested in a range / alone is rejected with ValueError, a
    pyparsing ParseException becomes ValueError;
  * the source returned next to the predicate denotes the same value (it is parsed again and evaluated on the same atom);
  * the grammar handed to pyparsing by the real `_initialize` (run against recording stubs): five precedence levels, tightest first
    =~ / comparisons / not / and / or, with the documented spellings, arities and associativity; no alternative of a MatchFirst is
    shadowed by an earlier prefix (`<` before `<=`); range condition tried before the implicit list; keyword and operator words
    matched as whole words and excluded from literals; parse actions are the classes under contract.

Tokens are handed to the classes in the shape pyparsing's parse actions use (Group -> tokens[0] is the list): an assumption on the dependency.
"""
import ast
import copy

import z3

from mdvc import core
from mdvc.core import SBool, SInt, SReal, Sym, Unsupported
from mdvc.pyinterp import EXC, Closure, ExcClass, ExcInst, Namespace, Obj, PyExc
from mdvc.verify import contract

FILE = "mdtraj/core/selection.py"

# ---- the documented language (docs/atom_selection.rst: keyword table, operators, range and implicit-list sections) ----------------------
# keyword -> (synonyms, type, attribute path on the atom).  segment_id/segname are not in the docs table but in Atom's documentation.
DOC_KEYWORDS = {
    "all": (("everything",), "bool", True), "none": (("nothing",), "bool", False),
    "backbone": (("is_backbone",), "bool", ("is_backbone",)), "sidechain": (("is_sidechain",), "bool", ("is_sidechain",)),
    "protein": (("is_protein",), "bool", ("residue", "is_protein")), "water": (("is_water", "waters"), "bool", ("residue", "is_water")),
    "name": ((), "str", ("name",)), "index": ((), "int", ("index",)), "n_bonds": ((), "int", ("n_bonds",)),
    "type": (("element", "symbol"), "str", ("element", "symbol")), "mass": ((), "float", ("element", "mass")),
    "residue": (("resSeq",), "int", ("residue", "resSeq")), "resid": (("resi",), "int", ("residue", "index")),
    "resname": (("resn",), "str", ("residue", "name")), "rescode": (("code", "resc"), "str", ("residue", "code")),
    "chainid": ((), "int", ("residue", "chain", "index")), "segment_id": (("segname",), "str", ("segment_id",)),
}
ALIASES = {a: k for k, (syn, _, _) in DOC_KEYWORDS.items() for a in (k,) + syn}
DOC_OPS = {"and": ("and", "&&"), "or": ("or", "||"), "not": ("not", "!"), "<": ("<", "lt"), "<=": ("<=", "le"), "==": ("==", "eq"), "!=": ("!=", "ne"),
           ">=": (">=", "ge"), ">": (">", "gt"), "=~": ("=~",)}
OP_OF = {s: k for k, v in DOC_OPS.items() for s in v}
CMP = {"<": lambda a, b: a < b, "<=": lambda a, b: a <= b, "==": lambda a, b: a == b, "!=": lambda a, b: a != b, ">=": lambda a, b: a >= b, ">": lambda a, b: a > b}


# ---- symbolic atoms ---------------------------------------------------------------------------------------------------------------------
_CODES = {}


def strcode(s):
    return _CODES.setdefault(s, len(_CODES) + 1)


class SStr(Sym):
    """abstract string: an integer code; distinct concrete strings have distinct codes (only equality is interpreted)"""
    __slots__ = ()

    def sym_compare(self, interp, op, other, swapped):
        if isinstance(other, str):
            o = z3.IntVal(strcode(other))
        elif isinstance(other, SStr):
            o = other.t
        elif isinstance(other, (int, float)) or core.is_sym(other):
            if op in ("Eq", "NotEq"):
                return op == "NotEq"  # a str never equals a number
            raise PyExc(ExcInst(EXC["TypeError"], ("str compared with a number",)))
        else:
            return NotImplemented
        if op == "Eq":
            return SBool(self.t == o)
        if op == "NotEq":
            return SBool(self.t != o)
        raise Unsupported("ordering of abstract strings")

    __hash__ = Sym.__hash__


def sym_atom(tag="a"):
    mk = {"bool": lambda n: SBool(z3.Bool(n)), "int": lambda n: SInt(z3.Int(n)), "float": lambda n: SReal(z3.Real(n)), "str": lambda n: SStr(z3.Int("str:" + n))}
    vals = {}
    tree = {}
    for k, (_, ty, path) in DOC_KEYWORDS.items():
        if not isinstance(path, tuple):
            continue
        vals[path] = mk[ty](f"{tag}." + ".".join(path))
        d = tree
        for p in path[:-1]:
            d = d.setdefault(p, {})
        d[path[-1]] = vals[path]

    def build(name, d):
        return Namespace(name, **{k: (build(k, v) if isinstance(v, dict) else v) for k, v in d.items()})
    return build("atom", tree), vals


def truth_term(v):
    """Python truthiness of a denotation as a z3 Bool"""
    if v is None:
        return z3.BoolVal(False)
    if isinstance(v, bool):
        return z3.BoolVal(v)
    return core.as_bool_term(v)


# ---- pyparsing stand-in: records the grammar ---------------------------------------------------------------------------------------------
class PP:
    def __init__(self, kind, *a, **k):
        self.kind, self.a, self.k, self.action = kind, a, k, None

    def setParseAction(self, f):
        self.action = f
        return self

    def __or__(self, o):
        return PP("MatchFirst", [self, o])

    def __add__(self, o):
        return PP("And", self, o)

    def __invert__(self):
        return PP("NotAny", self)

    def flat(self, kind):
        """alternatives of nested a|b|c (or parts of a+b+c), left to right"""
        if self.kind != kind:
            return [self]
        parts = self.a[0] if kind == "MatchFirst" else self.a
        return [y for x in parts for y in x.flat(kind)]

    def __repr__(self):
        return f"{self.kind}{self.a}"


class _Env:
    pass


def load(ctx, re_model=None):
    im = ctx.interp.import_models
    mk = lambda kind: (lambda *a, **k: PP(kind, *a, **k))
    PE = ExcClass("ParseException", [EXC["Exception"]])
    im["pyparsing"] = Namespace("pyparsing", Group=mk("Group"), Keyword=mk("Keyword"), Literal=mk("Literal"), MatchFirst=mk("MatchFirst"), OneOrMore=mk("OneOrMore"),
                                ParseException=PE, ParserElement=Namespace("ParserElement", enablePackrat=lambda **k: None), Word=mk("Word"),
                                alphanums="<alphanums>", alphas="<alphas>", infixNotation=mk("infixNotation"),
                                opAssoc=Namespace("opAssoc", LEFT="LEFT", RIGHT="RIGHT"), quotedString=PP("quotedString"))
    im["ast"] = ast
    im["copy"] = copy
    calls = []

    def re_match(pattern, string):
        # regular expressions are a dependency: an uninterpreted predicate of (pattern, string)
        calls.append((pattern, string))
        b = SBool(z3.Bool(f"re.match({pattern!r},{string!r})"))
        return "<match object>" if ctx.interp.truth(b) else None
    im["re"] = Namespace("re", match=re_match)
    mod = ctx.module(FILE)
    interp = ctx.interp

    class CodeTok:
        def __init__(self, node):
            self.node = node

    def b_compile(node, filename, mode="exec"):
        if mode != "eval" or not isinstance(node, ast.Expression):
            raise Unsupported("compile() of something else than an Expression in eval mode")
        return CodeTok(node)

    def b_eval(code, globs=None, locs=None):
        if not isinstance(code, CodeTok) or not isinstance(code.node.body, ast.Lambda):
            raise Unsupported("eval() of something else than the compiled lambda")
        pm = _Env()
        pm.name, pm.globals, pm.path = "<compiled selection>", dict(globs or {}), "<string>"
        return interp.make_closure(code.node.body, _mkenv(pm), pm, "<lambda>")

    def _mkenv(pm):
        from mdvc.pyinterp import Env
        e = Env(None, pm.globals)
        e.vars = pm.globals
        return e
    interp.builtins["compile"] = b_compile
    interp.builtins["eval"] = b_eval
    return mod, PE, calls


class Trees:
    """build parse results with the REAL classes, in pyparsing's calling convention"""

    def __init__(self, ctx, mod):
        self.ctx, self.g = ctx, mod.globals

    def new(self, cls, tokens):
        return self.ctx.interp.call(self.g[cls], [tokens], {})

    def kw(self, word):
        return self.new("SelectionKeyword", [word])

    def lit(self, text):
        return self.new("Literal", [text])

    def binop(self, *parts):
        return self.new("BinaryInfixOperand", [list(parts)])

    def unop(self, op, a):
        return self.new("UnaryInfixOperand", [[op, a]])

    def regex(self, a, pat):
        return self.new("RegexInfixOperand", [[a, "=~", pat]])

    def rng(self, k, lo, hi):
        return self.new("RangeCondition", [[k, lo, "to", hi]])

    def inlist(self, k, *lits):
        return self.new("InListCondition", [[k] + list(lits)])


class Abs:
    """abstract operand: `.ast()` is a name bound, in the evaluation environment, to an unconstrained value"""

    def __init__(self, name, value):
        self.name, self.value = name, value

    def ast(self):
        return ast.Name(id=self.name, ctx=ast.Load(), SINGLETON=True)


def pipeline(ctx, mod, PE, tree, operands=(), text="<selection>", parse_error=None):
    """run the real parse_selection.__call__ with pyparsing's parseString replaced by `tree`; -> (outcome, visit-count)"""
    interp = ctx.interp
    ps = mod.globals["parse_selection"]
    init = ctx.call_method(ps, "_initialize")
    if init.raised:
        return init
    tr = ps.fields["transformer"]

    def visit(node):  # ast.NodeTransformer.visit / generic_visit (CPython semantics) dispatching to the interpreted visit_* methods
        try:
            f = tr.cls.lookup("visit_" + type(node).__name__)
        except KeyError:
            f = None
        if f is not None:
            return interp.call(f, [tr, node], {})
        for field, old in ast.iter_fields(node):
            if isinstance(old, list):
                new = []
                for v in old:
                    if isinstance(v, ast.AST):
                        v = visit(v)
                        if v is None:
                            continue
                        if not isinstance(v, ast.AST):
                            new.extend(v)
                            continue
                    new.append(v)
                old[:] = new
            elif isinstance(old, ast.AST):
                n = visit(old)
                if n is None:
                    delattr(node, field)
                else:
                    setattr(node, field, n)
        return node
    tr.fields["visit"] = visit

    class Expr:
        def parseString(self, s, parseAll=False):
            if parse_error is not None:
                e = ExcInst(PE, (parse_error,))
                e.attrs = {"loc": 3, "msg": parse_error}
                raise PyExc(e)
            return [tree]
    ps.fields["expression"] = Expr()
    mod.globals["SELECTION_GLOBALS"].update({o.name: o.value for o in operands})
    return ctx.call_method(ps, "__call__", text)


def denote(ctx, mod, parsed, atom, operands=()):
    """(value of the compiled predicate on the atom, value of the returned source text evaluated on the same atom)"""
    interp = ctx.interp
    v = interp.call(parsed.expr, [atom], {})
    src = ast.parse(parsed.source, mode="eval").body
    pm = _Env()
    pm.name, pm.path = "<source>", "<source>"
    pm.globals = dict(mod.globals["SELECTION_GLOBALS"])
    pm.globals["atom"] = atom
    from mdvc.pyinterp import Env
    e = Env(None, pm.globals)
    e.vars = pm.globals
    try:
        v2 = interp.eval(src, e, pm)
    except PyExc as ex:
        v2 = ex
    return v, v2


def check_denotation(ctx, mod, PE, tree, spec, operands=(), label="denotation"):
    """spec: (atom values) -> z3 Bool the selection must be equivalent to"""
    out = pipeline(ctx, mod, PE, tree, operands)
    ctx.ensure(f"{label}:accepted", not out.raised)
    if out.raised:
        return
    atom, vals = sym_atom()
    v, v2 = denote(ctx, mod, out.value, atom, operands)
    want = spec(vals)
    want = z3.BoolVal(want) if isinstance(want, bool) else want
    ctx.cover("denoted")
    ctx.ensure(f"{label}:predicate-selects-exactly-the-atoms-of-the-documented-meaning", truth_term(v) == want)
    ctx.ensure(f"{label}:returned-source-evaluates", not isinstance(v2, PyExc))
    if not isinstance(v2, PyExc):
        ctx.ensure(f"{label}:returned-source-denotes-the-same", truth_term(v2) == want)


def check_refused(ctx, mod, PE, build, label):
    """build() constructs the tree (the classes refuse in their constructors) and runs the pipeline; must end in ValueError"""
    try:
        tree = build()
        out = pipeline(ctx, mod, PE, tree)
        raised = out.exc.name if out.raised else None
    except PyExc as e:
        raised = e.name
    ctx.cover("refused")
    ctx.ensure(f"{label}:rejected-with-ValueError", raised == "ValueError")


# ---- contracts ---------------------------------------------------------------------------------------------------------------------------
def keyword(ctx, alias):
    mod, PE, _ = load(ctx)
    T = Trees(ctx, mod)
    canon = ALIASES[alias]
    _, ty, path = DOC_KEYWORDS[canon]
    table = set(mod.globals["SelectionKeyword"].ns["keyword_aliases"])
    ctx.ensure("keyword-is-in-the-table-the-grammar-is-built-from", alias in table)
    if alias not in table:
        return
    if ty == "bool":
        # a bool keyword is a selection by itself
        check_denotation(ctx, mod, PE, T.kw(alias), lambda vals: (path if isinstance(path, bool) else vals[path].t), label=f"`{alias}`")
    elif ty == "str":
        check_denotation(ctx, mod, PE, T.binop(T.kw(alias), "==", T.lit("CA")), lambda vals: vals[path].t == strcode("CA"), label=f"`{alias} == CA`")
    else:
        num = "7" if ty == "int" else "7.5"
        val = z3.IntVal(7) if ty == "int" else z3.RealVal("7.5")
        check_denotation(ctx, mod, PE, T.binop(T.kw(alias), "<=", T.lit(num)), lambda vals: vals[path].t <= val, label=f"`{alias} <= {num}`")


contract("C12", FILE, "SelectionKeyword", cases=sorted(ALIASES), replay="selection", covers=["denoted"])(keyword)


def keyword_table(ctx, case):
    mod, PE, _ = load(ctx)
    table = set(mod.globals["SelectionKeyword"].ns["keyword_aliases"])
    extra = sorted(table - set(ALIASES))
    ctx.ensure("no-undocumented-keyword-in-the-table(" + ",".join(extra) + ")", not extra)
    ops = {s for v in DOC_OPS.values() for s in v} | {"to"}
    ctx.ensure("no-keyword-is-also-an-operator-word", not (table & ops))


contract("C12", FILE, "SelectionKeyword.keyword_aliases", replay="selection")(keyword_table)


def _abs_bool(k):
    return Abs(f"__operand{k}", SBool(z3.Bool(f"p{k}")))


def _abs_num(k):
    return Abs(f"__operand{k}", SReal(z3.Real(f"x{k}")))


def boolean_ops(ctx, case):
    mod, PE, _ = load(ctx)
    T = Trees(ctx, mod)
    sp = sorted(s for s in mod.globals["BinaryInfixOperand"].ns["keyword_aliases"] if OP_OF.get(s.strip()) in ("and", "or"))
    for s in sp:
        kind = OP_OF[s.strip()]
        f = z3.And if kind == "and" else z3.Or
        for n in (2, 3):
            ops = [_abs_bool(k) for k in range(n)]
            parts = [ops[0]]
            for o in ops[1:]:
                parts += [s, o]
            check_denotation(ctx, mod, PE, T.binop(*parts), lambda vals: f(*[o.value.t for o in ops]), ops, label=f"`a {s} b`x{n}")
    # mixed spellings of one operator in one group (`a and b && c`)
    for a, b in (("and", "&&"), ("||", "or")):
        ops = [_abs_bool(k) for k in range(3)]
        f = z3.And if OP_OF[a] == "and" else z3.Or
        check_denotation(ctx, mod, PE, T.binop(ops[0], a, ops[1], b, ops[2]), lambda vals: f(*[o.value.t for o in ops]), ops, label=f"`a {a} b {b} c`")
    ctx.ensure("both-spellings-of-and/or-are-in-the-table", {s.strip() for s in sp} == {"and", "&&", "or", "||"})
    # not
    un = sorted(mod.globals["UnaryInfixOperand"].ns["keyword_aliases"])
    for s in un:
        o = _abs_bool(0)
        check_denotation(ctx, mod, PE, T.unop(s, o), lambda vals: z3.Not(o.value.t), [o], label=f"`{s.strip()} a`")
    ctx.ensure("both-spellings-of-not-are-in-the-table", {s.strip() for s in un} == {"not", "!"})
    # nesting through the real classes: not (a and b) or c
    a, b, c = (_abs_bool(k) for k in range(3))
    t = T.binop(T.unop("!", T.binop(a, "and", b)), "or", c)
    check_denotation(ctx, mod, PE, t, lambda vals: z3.Or(z3.Not(z3.And(a.value.t, b.value.t)), c.value.t), [a, b, c], label="`!(a and b) or c`")


contract("C12", FILE, "BinaryInfixOperand(and|or);UnaryInfixOperand", replay="selection", covers=["denoted"], max_paths=400)(boolean_ops)


def comparisons(ctx, case):
    mod, PE, _ = load(ctx)
    T = Trees(ctx, mod)
    sp = sorted(s for s in mod.globals["BinaryInfixOperand"].ns["keyword_aliases"] if OP_OF.get(s.strip()) in CMP)
    ctx.ensure("every-documented-comparison-spelling-is-in-the-table", {s.strip() for s in sp} == {s for k in CMP for s in DOC_OPS[k]})
    for s in sp:
        f = CMP[OP_OF[s.strip()]]
        a, b = _abs_num(0), _abs_num(1)
        check_denotation(ctx, mod, PE, T.binop(a, s, b), lambda vals: f(a.value.t, b.value.t), [a, b], label=f"`a {s} b`")
        # keyword against a numeric literal, both ways round
        check_denotation(ctx, mod, PE, T.binop(T.kw("mass"), s, T.lit("12.5")), lambda vals: f(vals[("element", "mass")].t, z3.RealVal("12.5")), label=f"`mass {s} 12.5`")
        check_denotation(ctx, mod, PE, T.binop(T.lit("3"), s, T.kw("resid")), lambda vals: f(z3.IntVal(3), vals[("residue", "index")].t), label=f"`3 {s} resid`")
    for s in ("==", "eq", "!=", "ne"):
        f = CMP[OP_OF[s]]
        for text in ("CA", "'CA'", '"CA"'):
            check_denotation(ctx, mod, PE, T.binop(T.kw("name"), s, T.lit(text)), lambda vals: f(vals[("name",)].t, z3.IntVal(strcode("CA"))), label=f"`name {s} {text}`")


contract("C12", FILE, "BinaryInfixOperand(comparison)", replay="selection", covers=["denoted"], max_paths=400)(comparisons)


def literals(ctx, case):
    """literal token -> value, through Literal.ast and _RewriteNames (concrete tokens: one per lexical class of the documentation)"""
    mod, PE, _ = load(ctx)
    T = Trees(ctx, mod)
    for text, value in (("CA", "CA"), ("'CA'", "CA"), ('"CA"', "CA"), ("\"C5'\"", "C5'"), ("'H5\\'\\''", "H5''"), ("'O 1'", "O 1"), ("\"'\"", "'"), ("HOH", "HOH"), ("N1", "N1"), ("Ca", "Ca"), ("oxt", "oxt"), ("'hoh'", "hoh")):
        check_denotation(ctx, mod, PE, T.inlist(T.kw("name"), T.lit(text)), lambda vals: vals[("name",)].t == strcode(value), label=f"`name {text}`")
    for text, value in (("35", 35), ("0", 0), ("007", None)):
        if value is None:
            continue
        check_denotation(ctx, mod, PE, T.inlist(T.kw("resSeq"), T.lit(text)), lambda vals: vals[("residue", "resSeq")].t == value, label=f"`resSeq {text}`")
    for text, value in (("1.5", "1.5"), (".5", "0.5"), ("12.", "12")):
        check_denotation(ctx, mod, PE, T.binop(T.kw("mass"), "<", T.lit(text)), lambda vals: vals[("element", "mass")].t < z3.RealVal(value), label=f"`mass < {text}`")


contract("C12", FILE, "Literal;_RewriteNames", replay="selection", covers=["denoted"], max_paths=400)(literals)


RANGE_LIST_CASES = ["f lo to hi", "resid 10 to 30", "mass 1.5 to 20", "f v", "f v1 v2 v3", "name CA 'CB'", "resid 1 2 5", "resname ALA and not resSeq 3 to 9"]


def range_and_list(ctx, case):
    """one case per expression: evaluating a chained comparison or a list membership forks, and the forks of independent expressions
    would otherwise multiply"""
    mod, PE, _ = load(ctx)
    T = Trees(ctx, mod)
    ri, rs, nm = ("residue", "index"), ("residue", "resSeq"), ("name",)
    if case == "f lo to hi":
        # <expression> <low> to <high>  resolves to  low <= expression <= high
        f, lo, hi = _abs_num(0), _abs_num(1), _abs_num(2)
        check_denotation(ctx, mod, PE, T.rng(f, lo, hi), lambda vals: z3.And(lo.value.t <= f.value.t, f.value.t <= hi.value.t), [f, lo, hi], label=f"`{case}`")
    elif case == "resid 10 to 30":
        check_denotation(ctx, mod, PE, T.rng(T.kw("resid"), T.lit("10"), T.lit("30")), lambda vals: z3.And(10 <= vals[ri].t, vals[ri].t <= 30), label=f"`{case}`")
    elif case == "mass 1.5 to 20":
        m = ("element", "mass")
        check_denotation(ctx, mod, PE, T.rng(T.kw("mass"), T.lit("1.5"), T.lit("20")), lambda vals: z3.And(z3.RealVal("1.5") <= vals[m].t, vals[m].t <= 20), label=f"`{case}`")
    elif case == "f v":
        # implicit equality
        a, b = _abs_num(0), _abs_num(1)
        check_denotation(ctx, mod, PE, T.inlist(a, b), lambda vals: a.value.t == b.value.t, [a, b], label=f"`{case}`")
    elif case == "f v1 v2 v3":
        vs = [_abs_num(k) for k in range(4)]
        check_denotation(ctx, mod, PE, T.inlist(*vs), lambda vals: z3.Or(*[vs[0].value.t == v.value.t for v in vs[1:]]), vs, label=f"`{case}`")
    elif case == "name CA 'CB'":
        check_denotation(ctx, mod, PE, T.inlist(T.kw("name"), T.lit("CA"), T.lit("'CB'")), lambda vals: z3.Or(vals[nm].t == strcode("CA"), vals[nm].t == strcode("CB")), label=f"`{case}`")
    elif case == "resid 1 2 5":
        check_denotation(ctx, mod, PE, T.inlist(T.kw("resid"), T.lit("1"), T.lit("2"), T.lit("5")), lambda vals: z3.Or(*[vals[ri].t == k for k in (1, 2, 5)]), label=f"`{case}`")
    else:
        # conditions as operands of the connectives
        t = T.binop(T.inlist(T.kw("resname"), T.lit("ALA")), "and", T.unop("not ", T.rng(T.kw("resSeq"), T.lit("3"), T.lit("9"))))
        check_denotation(ctx, mod, PE, t, lambda vals: z3.And(vals[("residue", "name")].t == strcode("ALA"), z3.Not(z3.And(3 <= vals[rs].t, vals[rs].t <= 9))), label=f"`{case}`")


contract("C12", FILE, "RangeCondition;InListCondition", cases=RANGE_LIST_CASES, replay="selection", covers=["denoted"], max_paths=100)(range_and_list)


def regex(ctx, case):
    mod, PE, calls = load(ctx)
    T = Trees(ctx, mod)
    out = pipeline(ctx, mod, PE, T.regex(T.kw("name"), T.lit("'C[1-4]'")))
    ctx.ensure("accepted", not out.raised)
    if out.raised:
        return
    atom, vals = sym_atom()
    v = ctx.interp.call(out.value.expr, [atom], {})
    ctx.cover("denoted")
    ctx.ensure("re.match-is-asked-about(pattern,the-atom's-attribute)in-this-order", len(calls) == 1 and calls[0][0] == "C[1-4]" and calls[0][1] is vals[("name",)])
    if len(calls) == 1:
        ctx.ensure("selected-iff-the-pattern-matches", truth_term(v) == z3.Bool(f"re.match({calls[0][0]!r},{calls[0][1]!r})"))


contract("C12", FILE, "RegexInfixOperand", replay="selection", covers=["denoted"])(regex)


def refusals(ctx, case):
    mod, PE, _ = load(ctx)
    T = Trees(ctx, mod)
    b = _abs_bool(0)
    if case == "literal-as-truth":
        check_refused(ctx, mod, PE, lambda: T.binop(T.lit("CA"), "and", b), "`CA and a`")
        check_refused(ctx, mod, PE, lambda: T.binop(b, "||", T.lit("5")), "`a || 5`")
        check_refused(ctx, mod, PE, lambda: T.unop("not ", T.lit("CA")), "`not CA`")
    elif case == "literal-compared-with-literal":
        check_refused(ctx, mod, PE, lambda: T.binop(T.lit("1"), "<", T.lit("2")), "`1 < 2`")
        check_refused(ctx, mod, PE, lambda: T.binop(T.lit("CA"), "==", T.lit("CA")), "`CA == CA`")
        check_refused(ctx, mod, PE, lambda: T.regex(T.lit("CA"), T.lit("'C.*'")), "`CA =~ 'C.*'`")
    elif case == "literal-in-range":
        check_refused(ctx, mod, PE, lambda: T.rng(T.lit("5"), T.lit("1"), T.lit("9")), "`5 1 to 9`")
    elif case == "single-literal":
        check_refused(ctx, mod, PE, lambda: T.lit("CA"), "`CA`")
        check_refused(ctx, mod, PE, lambda: T.lit("5"), "`5`")
        check_refused(ctx, mod, PE, lambda: T.lit("'x y'"), "`'x y'`")
    else:  # pyparsing could not parse the string
        out = pipeline(ctx, mod, PE, None, parse_error="Expected end of text")
        ctx.cover("refused")
        ctx.ensure("a-parse-error-is-reported-as-ValueError", out.raised and out.exc.name == "ValueError")


contract("C12", FILE, "parse_selection.__call__(refusals)", cases=["literal-as-truth", "literal-compared-with-literal", "literal-in-range", "single-literal", "parse-error"],
         replay="selection", covers=["refused"])(refusals)


def grammar(ctx, case):
    mod, PE, _ = load(ctx)
    ps = mod.globals["parse_selection"]
    init = ctx.call_method(ps, "_initialize")
    ctx.ensure("grammar-built", not init.raised)
    if init.raised:
        return
    g = ps.fields["expression"]
    ctx.ensure("top-level-is-infixNotation(base,levels)", isinstance(g, PP) and g.kind == "infixNotation" and len(g.a) == 2)
    if not (isinstance(g, PP) and g.kind == "infixNotation" and len(g.a) == 2):
        return
    base, levels = g.a
    G = mod.globals

    def spellings(m):
        alts = m.flat("MatchFirst")
        return [x.a[0] for x in alts], {x.kind for x in alts}
    want = [({"=~"}, 2, "LEFT", "RegexInfixOperand"), ({s for k in CMP for s in DOC_OPS[k]}, 2, "LEFT", "BinaryInfixOperand"), ({"not", "!"}, 1, "RIGHT", "UnaryInfixOperand"),
            ({"and", "&&"}, 2, "LEFT", "BinaryInfixOperand"), ({"or", "||"}, 2, "LEFT", "BinaryInfixOperand")]
    names = ["=~", "comparisons", "not", "and", "or"]
    ctx.ensure("five-precedence-levels", len(levels) == 5)
    for k, (lv, (sp, n, assoc, cls)) in enumerate(zip(levels, want)):
        m, arity, las, action = lv
        got, kinds = spellings(m)
        ctx.ensure(f"level{k}(tightest-first)-holds-exactly-the-spellings-of:{names[k]}", {s.strip() for s in got} == sp)
        ctx.ensure(f"level{k}:{names[k]}:arity-and-associativity", arity == n and las == assoc)
        ctx.ensure(f"level{k}:{names[k]}:parse-action-is-{cls}", action is G[cls])
        shadow = [(a, b) for i, a in enumerate(got) for b in got[i + 1:] if b.startswith(a) and b != a]
        ctx.ensure(f"level{k}:{names[k]}:no-spelling-shadowed-by-an-earlier-prefix{shadow}", not shadow)
        # every spelling handed to pyparsing is a key of the class's table (the class asserts it)
        ctx.ensure(f"level{k}:{names[k]}:spellings-are-keys-of-the-class-table", all(s in G[cls].ns["keyword_aliases"] for s in got))
    # base expression: range | implicit list | keyword-or-literal
    alts = base.flat("MatchFirst")
    acts = [getattr(a, "action", None) for a in alts]
    def pos(cls):
        return next((i for i, a in enumerate(alts) if a.action is G[cls]), None)
    r, l = pos("RangeCondition"), pos("InListCondition")
    ctx.ensure("base:range-condition-and-implicit-list-are-alternatives", r is not None and l is not None)
    if r is not None and l is not None:
        ctx.ensure("base:range-condition-is-tried-before-the-implicit-list(else `mass 1 to 20` stops at `to`)", r < l)
        ctx.ensure("base:both-are-Groups(tokens[0]-is-the-list)", alts[r].kind == "Group" and alts[l].kind == "Group")
        rparts = alts[r].a[0].flat("And")
        ctx.ensure("range:keyword,literal,`to`,literal", len(rparts) >= 4 and rparts[0].action is G["SelectionKeyword"] and any(p.kind == "Keyword" and p.a[0] == "to" for p in rparts))
        lparts = alts[l].a[0].flat("And")
        ctx.ensure("list:keyword,OneOrMore(literal)", lparts[0].action is G["SelectionKeyword"] and lparts[-1].kind == "OneOrMore")
    # keyword matcher: whole-word Keyword per alias of the table
    def find(p, pred, out):
        if isinstance(p, PP):
            if pred(p):
                out.append(p)
            for x in p.a:
                find(x, pred, out)
        elif isinstance(p, (list, tuple)):
            for x in p:
                find(x, pred, out)
        return out
    kws = find(base, lambda p: p.action is G["SelectionKeyword"], [])
    ctx.ensure("keywords:matcher-present", bool(kws))
    for kmatch in kws[:1]:
        got, kinds = spellings(kmatch)
        ctx.ensure("keywords:every-alias-of-the-table-is-matched-as-a-whole-word(Keyword)", set(got) == set(G["SelectionKeyword"].ns["keyword_aliases"]) and kinds == {"Keyword"})
    lits = find(base, lambda p: p.action is G["Literal"], [])
    ctx.ensure("literals:matcher-present", bool(lits))
    for lm in lits[:1]:
        parts = lm.flat("And")
        neg = [p for p in parts if p.kind == "NotAny"]
        ctx.ensure("literals:operator-words-and-`to`-are-excluded", len(neg) == 1)
        if len(neg) == 1:
            ex = find(neg[0], lambda p: p.kind == "Keyword", [])
            words = {p.a[0].strip() for p in ex}
            ctx.ensure("literals:excluded-words=all-operator-spellings+to", words >= ({s for v in DOC_OPS.values() for s in v} - {"=~"}) | {"to"})
        forms = find(parts[-1], lambda p: p.kind in ("Word", "quotedString"), [])
        ctx.ensure("literals:numbers,quoted-strings,words", {p.kind for p in forms} == {"Word", "quotedString"} and len(forms) == 3)


contract("C12", FILE, "parse_selection._initialize(grammar-handed-to-pyparsing)", replay="selection")(grammar)
