"""C01 -- text codecs as encode/decode pairs: what the xyz and lammpstrj writers emit, read back by the readers' own one-frame parsers.

The real `write` is executed on symbolic coordinates (and cell), its output recorded line by line as tokens (contracts/c19t.py); those very
lines are then handed to the real `_read` of the same class.  The only codec assumption is the meaning of number formatting:
        float(format(v, '8.3f')) = q  with  |q - v| <= 0.0005        (fixed-point formatting with three decimals rounds to the nearest 0.001)
        float(repr(v)) = v                                            (unformatted numbers, the LAMMPS box bounds)
Clauses: the parser accepts the writer's output (no exception, exactly the frame's lines consumed), returns as many atoms as were written, in
the same order, each coordinate within 0.0005 of the written one (native unit: Angstrom), for lammpstrj also the cell lengths (exact: repr round trip)
and right angles; two frames written in one call are read back as two frames in order.
"""
import numpy as _np
import z3

from mdvc import core
from mdvc.core import SInt, SReal, rterm, term
from mdvc.pyinterp import Namespace, Obj
from mdvc.verify import contract

from . import c03, c19t

HALF_ULP = z3.RealVal("0.0005")


class ReadBack:
    """the writer's recorded items as a readable text handle: readline() joins the recorded pieces up to the next newline"""

    def __init__(self, ctx, sink):
        self.ctx = ctx
        self.lines, cur = [], []
        for it in sink.items:
            parts = it.parts if isinstance(it, c19t.Line) else [it]
            for p in parts:
                if isinstance(p, str):
                    segs = p.split("\n")
                    for j, s in enumerate(segs):
                        if s:
                            cur.append(s)
                        if j < len(segs) - 1:
                            self.lines.append(cur)
                            cur = []
                else:
                    cur.append(p)
        if cur:
            self.lines.append(cur)
        self.i = 0
        self.memo = {}

    def value(self, tok):
        if tok.spec == "":
            return tok.value  # repr round trip
        key = tok.key()
        if key not in self.memo:
            import re
            m = re.fullmatch(r"\d*\.(\d+)f", tok.spec)
            if not m:
                raise core.Unsupported(f"number format {tok.spec!r}")
            half = z3.RealVal("0." + "0" * int(m.group(1)) + "5")  # half a unit in the last printed decimal
            q = z3.Real(core.fresh_name("parsed"))
            v = rterm(tok.value)
            self.ctx.assume(q - v <= half, v - q <= half)  # formatting axiom (ground instance)
            self.memo[key] = SReal(q)
        return self.memo[key]

    def readline(self):
        if self.i >= len(self.lines):
            return ""
        ln = self.lines[self.i]
        self.i += 1
        if all(isinstance(p, str) for p in ln):
            return "".join(ln) + "\n"
        fh = self

        class L:
            def split(self_):
                out = []
                for p in ln:
                    out += p.split() if isinstance(p, str) else [fh.value(p)]
                return out

            def __eq__(self_, o):
                return False
            __hash__ = object.__hash__
        return L()


def text_roundtrip(ctx, fmt):
    from mdvc import npobj

    c03.install(ctx)
    im = ctx.interp.import_models
    im["numpy"] = npobj.NumpyO()
    im["datetime"] = Namespace("datetime", date=Namespace("date", today=lambda: "<today>"))
    im["mdtraj"] = Namespace("mdtraj", __version__="<version>")
    im["itertools"] = Namespace("itertools", count=lambda *a: None)

    def valid(x, dtype=None, *a, **k):
        if dtype is int and isinstance(x, _np.ndarray) and x.dtype != object:
            return x.astype(int)
        return x
    for name in ("mdtraj.utils", "mdtraj.utils.validation"):
        im[name]._attrs["ensure_type"] = valid
    relfile, clsname = {"xyz": ("mdtraj/formats/xyzfile.py", "XYZTrajectoryFile"), "lammpstrj": ("mdtraj/formats/lammpstrj.py", "LAMMPSTrajectoryFile")}[fmt]
    mod = ctx.module(relfile)
    mod.globals["ensure_type"] = valid
    cls = mod.globals[clsname]
    c19t.hooks(ctx)
    X, L, arr, box = c19t.frames(ctx)
    F, A = c19t.F, c19t.A
    w, sink = c19t.handle(cls, fmt)
    oarr = lambda a: a.view(npobj.OArr)
    if fmt == "xyz":
        o = ctx.call_method(w, "write", oarr(arr([0, 1])))
    else:
        ctx.assume(*[L[f][k] > 0 for f in range(F) for k in range(3)])
        o = ctx.call_method(w, "write", oarr(arr([0, 1])), oarr(box([0, 1])), _np.array([[90.0, 90.0, 90.0]] * 2, dtype=object))
    ctx.ensure("write:no-exception", not o.raised)
    if o.raised:
        return
    rb = ReadBack(ctx, sink)
    r = Obj(cls)
    r.fields.update(_mode="r", _is_open=True, _frame_index=0, _fh=rb, _filename="/data/f." + fmt, _line_counter=0, _n_frames=None)
    per_frame = {"xyz": A + 2, "lammpstrj": A + 9}[fmt]
    for f in range(F):
        out = ctx.call_method(r, "_read")
        ctx.ensure(f"frame{f}:the-reader-accepts-what-the-writer-wrote", not out.raised)
        if out.raised:
            return
        ctx.ensure(f"frame{f}:exactly-this-frame's-lines-consumed", rb.i == (f + 1) * per_frame)
        val = out.value
        xyz = val if fmt == "xyz" else val[0]
        ctx.ensure(f"frame{f}:atom-count", tuple(xyz.shape) == (A, 3))
        for a in range(A):
            for k in range(3):
                d = rterm(xyz[a][k]) - X[f][a][k].t
                ctx.ensure(f"frame{f}:atom{a}[{k}]-within-0.0005-of-the-written-coordinate", z3.And(d <= HALF_ULP, -d <= HALF_ULP))
        if fmt == "lammpstrj":
            lengths, angles = val[1], val[2]
            for k in range(3):
                ctx.ensure(f"frame{f}:cell-length[{k}]-is-the-written-length", rterm(list(lengths)[k]) == L[f][k].t)
                a_ = list(angles)[k]
                ctx.ensure(f"frame{f}:cell-angle[{k}]=90", (rterm(a_) == 90) if core.is_sym(a_) else float(a_) == 90.0)
    ctx.cover("round-trip")
    ctx.ensure("position-after-two-frames", term(r.fields["_frame_index"]) == 2)
    end = ctx.call_method(r, "_read")
    ctx.ensure("then-end-of-file", end.raised and end.exc.name == "_EOF")


contract("C01", "mdtraj/formats/", "write;_read(xyz|lammpstrj)", cases=["xyz", "lammpstrj"], replay="codec:text", covers=["round-trip"], max_paths=200)(text_roundtrip)
