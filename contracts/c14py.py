"""C14 -- the Python side of baker_hubbard / wernet_nilsson (mdtraj/geometry/hbond.py).

The real functions are executed by the symbolic interpreter with NumPy itself doing the array plumbing on object arrays
(mdvc/npobj.py); `compute_distances` is replaced by its contract: an (n_frames, n_pairs) array of spec terms
DIST(periodic, frame, a, b) (symmetric, positive); `_get_bond_triplets` by a fixed triplet table (the topology side is
bounded-only).  Shapes are fixed and small (stated per case: bounded in shape, complete in the values); every comparison
the code makes is decided on the path, so the returned index arrays are concrete and are compared with the statement:

  baker_hubbard   returns exactly the triplets (d,h,a) with  #{frames: DIST(h,a) < distance_cutoff and
                  angle(d,h,a) > angle_cutoff*pi/180} / n_frames > freq,  angle = acos(clip((|dh|^2+|ha|^2-|da|^2)/(2|dh||ha|)))
  wernet_nilsson  returns per frame exactly those with DIST(d,a) < 0.33 - 0.000044*delta^2 and delta < 45 degrees,
                  delta = angle at the donor between H and the acceptor, in degrees
  all three distances of a triplet are measured with the caller's `periodic` flag.
"""
import numpy as np
import z3

from mdvc import core, npobj, npreal
from mdvc.core import SBool, SReal, rterm, term
from mdvc.pyinterp import Namespace
from mdvc.verify import contract

from . import common

DIST = z3.Function("DIST", z3.BoolSort(), z3.IntSort(), z3.IntSort(), z3.IntSort(), z3.RealSort())
TRIPLETS = {"1x2": (1, [[0, 1, 2], [3, 4, 2]]), "2x1": (2, [[0, 1, 5]]), "2x2": (2, [[0, 1, 2], [3, 4, 5]])}


class Traj:
    """what hbond.py uses of a Trajectory: .topology (token), n_frames through the distance arrays"""

    def __init__(self, n_frames):
        self.n_frames = n_frames
        self.topology = "TOPOLOGY"

    def sym_getattr(self, interp, name):
        if name in ("topology", "n_frames"):
            return getattr(self, name)
        raise core.Unsupported("Trajectory." + name)


def setup(ctx, n_frames, table, calls):
    ex = ctx.ex
    interp = ctx.interp
    interp.import_models["numpy"] = npobj.NumpyO()

    def compute_distances(traj, pairs, periodic=True, opt=True):
        pairs = np.asarray(pairs)
        calls.append(("compute_distances", traj, pairs.copy(), periodic))
        out = np.empty((n_frames, len(pairs)), dtype=object)
        per = core.as_bool_term(periodic)
        for f in range(n_frames):
            for k, (a, b) in enumerate(pairs):
                lo, hi = (int(a), int(b)) if a <= b else (int(b), int(a))
                t = DIST(per, f, lo, hi)
                ex.assume(t > 0)  # contract of compute_distances for distinct atoms
                out[f, k] = SReal(t)
        return out

    interp.import_models["mdtraj.geometry"] = Namespace("mdtraj.geometry", compute_distances=compute_distances, _geometry=None)
    mod = ctx.module("mdtraj/geometry/hbond.py")

    def get_triplets(topology, exclude_water=True, sidechain_only=False):
        calls.append(("_get_bond_triplets", topology, exclude_water, sidechain_only))
        return np.array(table, dtype=int)

    mod.globals["_get_bond_triplets"] = get_triplets
    return mod


def angle_at(per, f, apex_pair1, apex_pair2, opposite):
    """acos(clip((a^2+b^2-c^2)/(2ab), -1, 1)) for the triangle sides given as atom pairs"""
    d = lambda p: DIST(per, f, min(p), max(p))
    a, b, c = d(apex_pair1), d(apex_pair2), d(opposite)
    cosv = (a * a + b * b - c * c) / (2 * a * b)
    cl = z3.If(cosv < -1, z3.RealVal(-1), z3.If(cosv > 1, z3.RealVal(1), cosv))
    return npreal.ACOS(cl)


def baker_hubbard(ctx, case):
    shape, per_case = case
    n_frames, table = TRIPLETS[shape]
    calls = []
    mod = setup(ctx, n_frames, table, calls)
    freq, dcut, acut = ctx.real("freq"), ctx.real("distance_cutoff"), ctx.real("angle_cutoff")
    ctx.assume(freq >= 0, freq <= 1, dcut > 0, acut >= 0, acut <= 180)
    periodic = {"periodic": True, "non-periodic": False}[per_case]
    ew, sc = ctx.bool("exclude_water"), ctx.bool("sidechain_only")
    out = ctx.call(mod.globals["baker_hubbard"], Traj(n_frames), freq=freq, exclude_water=ew, periodic=periodic, sidechain_only=sc,
                   distance_cutoff=dcut, angle_cutoff=acut)
    ctx.ensure("no-exception", not out.raised)
    if out.raised:
        return
    ctx.cover("returned")
    res = [tuple(int(x) for x in row) for row in np.asarray(out.value)]
    per = z3.BoolVal(periodic)
    t0 = [c for c in calls if c[0] == "_get_bond_triplets"]
    ctx.ensure("triplets-come-from-the-trajectory's-topology-with-the-caller's-filters", len(t0) == 1 and t0[0][1] == "TOPOLOGY" and t0[0][2] is ew and t0[0][3] is sc)
    for c in calls:
        if c[0] == "compute_distances":
            ctx.ensure("every-distance-is-measured-with-the-caller's-periodic-flag", z3.BoolVal(c[3] is periodic))
    ctx.ensure("result-is-a-subsequence-of-the-candidate-triplets", z3.BoolVal([t for t in map(tuple, table) if t in res] == res))
    rad = rterm(acut) * npreal.PI / 180
    for (d, h, a) in map(tuple, table):
        present = []
        for f in range(n_frames):
            ang = angle_at(per, f, (d, h), (h, a), (d, a))
            present.append(z3.And(DIST(per, f, min(h, a), max(h, a)) < rterm(dcut), ang > rad))
        count = sum(z3.If(p, 1, 0) for p in present)
        want = z3.ToReal(count) / n_frames > rterm(freq)
        ctx.ensure(f"triplet({d},{h},{a})-returned<=>H...A<cutoff-and-angle>cutoff-in-more-than-freq-of-the-frames", z3.BoolVal((d, h, a) in res) == want)
        ctx.cover("some-returned" if (d, h, a) in res else "some-rejected")


import os  # noqa: E402

_SHAPES = ("1x2", "2x1", "2x2") if os.environ.get("MDVC_TIER") == "thorough" else ("1x2", "2x1")
CASES_BH = [(s, p) for s in _SHAPES for p in ("periodic", "non-periodic")]
contract("C14", "mdtraj/geometry/hbond.py", "baker_hubbard", cases=CASES_BH, replay="hbond", covers=["returned", "some-returned", "some-rejected"], max_paths=30000)(baker_hubbard)


def wernet_nilsson(ctx, case):
    shape, per_case = case
    n_frames, table = TRIPLETS[shape]
    calls = []
    mod = setup(ctx, n_frames, table, calls)
    periodic = {"periodic": True, "non-periodic": False}[per_case]
    ew, sc = ctx.bool("exclude_water"), ctx.bool("sidechain_only")
    ctx.assume(npreal.PI > 3, npreal.PI < 4)
    out = ctx.call(mod.globals["wernet_nilsson"], Traj(n_frames), exclude_water=ew, periodic=periodic, sidechain_only=sc)
    ctx.ensure("no-exception", not out.raised)
    if out.raised:
        return
    ctx.cover("returned")
    per = z3.BoolVal(periodic)
    t0 = [c for c in calls if c[0] == "_get_bond_triplets"]
    ctx.ensure("triplets-come-from-the-trajectory's-topology-with-the-caller's-filters", len(t0) == 1 and t0[0][1] == "TOPOLOGY" and t0[0][2] is ew and t0[0][3] is sc)
    for c in calls:
        if c[0] == "compute_distances":
            ctx.ensure("every-distance-is-measured-with-the-caller's-periodic-flag", z3.BoolVal(c[3] is periodic))
    ctx.ensure("one-list-per-frame", z3.BoolVal(len(out.value) == n_frames))
    if len(out.value) != n_frames:
        return
    import math

    for f in range(n_frames):
        res = [tuple(int(x) for x in row) for row in np.asarray(out.value[f])]
        ctx.ensure(f"frame{f}:result-is-a-subsequence-of-the-candidate-triplets", z3.BoolVal([t for t in map(tuple, table) if t in res] == res))
        for (d, h, a) in map(tuple, table):
            delta = angle_at(per, f, (a, d), (d, h), (h, a))  # angle at the donor between acceptor and hydrogen
            deg = delta * 180 / z3.RealVal(repr(math.pi))
            want = DIST(per, f, min(d, a), max(d, a)) < z3.RealVal("0.33") - z3.RealVal("0.000044") * deg * deg
            ctx.ensure(f"frame{f}:triplet({d},{h},{a})-returned<=>r_DA<0.33-0.000044*delta^2(delta=angle(H,D,A)-in-degrees)", z3.BoolVal((d, h, a) in res) == want)
            ctx.cover("some-returned" if (d, h, a) in res else "some-rejected")


contract("C14", "mdtraj/geometry/hbond.py", "wernet_nilsson", cases=CASES_BH, replay="hbond", covers=["returned", "some-returned", "some-rejected"], max_paths=30000)(wernet_nilsson)
