"""C12 -- every selection expression selects exactly the atoms its meaning denotes.

Deductive part (so far): Topology.select / select_expression plumbing around the parser --
  select(s) returns [a.index for a in atoms (iteration order = index order) if pred_s(a)] for the predicate the parser
  returns, evaluated on the CURRENT state of the topology, and select is a pure observer (no hidden state is created),
  so repeating a selection after in-place edits reflects the edits (history clause);
  select_expression embeds the parser's source for the same string.
The grammar / token classes / precedence table are covered by the bounded grammar enumeration (bcc/c12.py).
"""
import z3

from mdvc import core
from mdvc.core import SBool
from mdvc.pyinterp import Namespace, Obj
from mdvc.verify import contract

from . import c04


def setup(ctx):
    mod, elems = c04.setup(ctx)
    calls = []

    def parse_selection(s):
        calls.append(s)

        def pred(atom):
            # an arbitrary predicate of the atom's CURRENT attributes
            key = (s, atom.fields["index"], atom.fields["name"], atom.fields["residue"].fields["name"], str(atom.fields["residue"].fields["resSeq"]))
            return SBool(z3.Bool("sel:" + repr(key)))
        return Namespace("parsed", expr=pred, source=f"<source of {s}>")

    mod.globals["parse_selection"] = parse_selection
    return mod, elems, calls


def expected(ctx, top, s):
    """indices of the atoms (in iteration order) for which the predicate holds on this path"""
    out = []
    for a in c04.flat_atoms(top):
        key = (s, a.fields["index"], a.fields["name"], a.fields["residue"].fields["name"], str(a.fields["residue"].fields["resSeq"]))
        b = z3.Bool("sel:" + repr(key))
        must = not ctx.ex.feasible([z3.Not(b)])
        mustnot = not ctx.ex.feasible([b])
        out.append((a.fields["index"], must, mustnot))
    return out


@contract("C12", "mdtraj/core/topology.py", "Topology.select", cases=["once", "after-rename", "after-renumber"], replay="selection", max_paths=600)
def select(ctx, case):
    mod, elems, calls = setup(ctx)
    top, view, bonds, atoms = c04.build(ctx, mod, elems, "a", symbolic=False)
    keys_before = set(top.fields)
    s = "name CA"
    out = ctx.call_method(top, "select", s)
    ctx.ensure("no-exception", not out.raised)
    if out.raised:
        return
    ctx.ensure("select-is-a-pure-observer(no-field-added-to-the-topology)", set(top.fields) == keys_before)
    if case != "once":
        # in-place edit through public attributes, then the SAME selection string again
        if case == "after-rename":
            atoms[0].fields["name"] = "OW"
        else:
            top.fields["_chains"][0].fields["_residues"][0].fields["resSeq"] = 107
        out = ctx.call_method(top, "select", s)
        ctx.ensure("no-exception(second-call)", not out.raised)
        if out.raised:
            return
    got = [int(x) for x in out.value.tolist()]
    exp = expected(ctx, top, s)
    want_in = [i for i, must, mustnot in exp if must]
    may_in = [i for i, must, mustnot in exp if not mustnot]
    ctx.ensure("result==indices-of-atoms-satisfying-the-predicate-on-the-current-topology", all(i in got for i in want_in) and all(i in may_in for i in got))
    ctx.ensure("result-in-increasing-order", got == sorted(set(got)))


@contract("C12", "mdtraj/core/topology.py", "Topology.select_expression", replay="selection")
def select_expression(ctx, case):
    mod, elems, calls = setup(ctx)
    top, view, bonds, atoms = c04.build(ctx, mod, elems, "a", symbolic=False)
    out = ctx.call_method(top, "select_expression", "name CA")
    ctx.ensure("no-exception", not out.raised)
    if out.raised:
        return
    ctx.ensure("expression-embeds-the-parsers-source-for-the-same-string", out.value == "[atom.index for atom in topology.atoms if <source of name CA>]" and calls == ["name CA"])
