"""C04 -- topology transformations preserve atoms, residues, chains and bonds.

The real Topology/Chain/Residue/Atom/Bond code is executed on topologies of a fixed small *shape*
(chains x residues x atoms, bonds inside and across residues and chains) whose attribute VALUES
are symbolic where the code can branch on them (resSeq, serial: symbolic integers; chain ids,
names, segment ids, bond types/orders: distinct tokens).  The abstract view

    view(top) = [ (chain_id, [ (name, resSeq, segment_id, [ (name, element, serial) ]) ]) ],  bonds over atom indices

is compared with the view the property demands.  Complete in the attribute values, bounded in the
shape (stated in the evidence; the bounded layer enumerates more shapes).  wf(top): indices equal
positions, counters equal lengths, every bond endpoint is one of the topology's OWN atoms.
"""
import itertools

import z3

from mdvc import core
from mdvc.core import SInt, Unsupported
from mdvc.pyinterp import EXC, ExcClass, ExcInst, Namespace, Obj, OpaqueModule, PyExc
from mdvc.verify import contract

SHAPE = [  # chains -> residues -> atom names
    [["N", "CA"], ["C"]],
    [["O", "H"]],
]
BONDS = [(0, 1), (1, 2), (2, 3), (3, 4)]  # within residue, across residues, across chains, within residue


class Elem:
    def __init__(self, name):
        self.name = name
        self.symbol = name[0]

    def __repr__(self):
        return f"<element {self.name}>"


class BondType:
    """stands for the Singleton bond types; float(type) is its documented numeric code"""

    def __init__(self, name, code):
        self.name, self.code = name, code

    def __float__(self):
        return self.code

    def __repr__(self):
        return self.name


SINGLE, DOUBLE, AMIDE = BondType("Single", 1.0), BondType("Double", 2.0), BondType("Amide", 4.0)  # singletons


def setup(ctx):
    im = ctx.interp.import_models
    elems = {n: Elem(n) for n in ("nitrogen", "carbon", "oxygen", "hydrogen", "virtual")}
    im["mdtraj.core"] = Namespace("core", element=Namespace("element", **elems))
    im["mdtraj.core.element"] = im["mdtraj.core"]._attrs["element"]
    im["mdtraj.core.residue_names"] = Namespace("rn", _AMINO_ACID_CODES={}, _PROTEIN_RESIDUES=set(), _SIMPLIFIED_AMINO_ACID_CODES={},
                                                _WATER_RESIDUES=set(), _SOLVENT_TYPES=set())
    im["mdtraj.core.selection"] = Namespace("sel", parse_selection=OpaqueModule("parse_selection"))
    utils = im["mdtraj.utils"]
    utils._attrs["ilen"] = lambda it: len(ctx.interp.iterate(it))
    im["xml.etree.ElementTree"] = OpaqueModule("etree")
    im["xml"] = OpaqueModule("xml")
    import os as _os
    im["os"] = Namespace("os", path=Namespace("p", join=_os.path.join, dirname=_os.path.dirname))

    class SingletonBase:
        pass

    im["mdtraj.utils.singleton"] = Namespace("singleton", Singleton=BondType)
    # numpy: only np.array(atom_indices) / unique / diff on a concrete index list in _topology_from_subset
    import numpy as _np

    class NP:
        def sym_getattr(self, interp, name):
            return getattr(_np, name)

    im["numpy"] = NP()
    mod = ctx.module("mdtraj/core/topology.py")
    return mod, elems


def build(ctx, mod, elems, tag, symbolic=True):
    """-> (topology Obj, expected view as python data, list of atom objs)"""
    I = ctx.interp
    T = mod.globals["Topology"]
    top = I.call(T, [], {})
    view = []
    atoms = []
    el_cycle = itertools.cycle(["nitrogen", "carbon", "carbon", "oxygen", "hydrogen"])
    ri = 0
    for ci, chain in enumerate(SHAPE):
        cid = f"{tag}-chain{ci}"  # explicit chain id
        c = I.call_method(top, "add_chain", [cid], {})
        cres = []
        for res in chain:
            resSeq = ctx.int(f"{tag}_resSeq{ri}") if (symbolic and ri in (0, 2)) else 10 + ri
            seg = f"{tag}-seg{ri}"
            r = I.call_method(top, "add_residue", [f"RES{ri}", c], {"resSeq": resSeq, "segment_id": seg})
            ratoms = []
            for an in res:
                serial = ctx.int(f"{tag}_serial{len(atoms)}") if symbolic else 100 + 7 * len(atoms)
                e = elems[next(el_cycle)]
                a = I.call_method(top, "add_atom", [an, e, r], {"serial": serial})
                atoms.append(a)
                ratoms.append((an, e, serial))
            cres.append((f"RES{ri}", resSeq, seg, ratoms))
            ri += 1
        view.append((cid, cres))
    btypes = [SINGLE, None, DOUBLE, AMIDE]
    orders = [1, None, 2, 1]
    bonds = []
    for (i, j), bt, bo in zip(BONDS, btypes, orders):
        I.call_method(top, "add_bond", [atoms[i], atoms[j]], {"type": bt, "order": bo})
        bonds.append((i, j, bt, bo))
    return top, view, bonds, atoms


def view_of(top):
    out = []
    for c in top.fields["_chains"]:
        cres = []
        for r in c.fields["_residues"]:
            cres.append((r.fields["name"], r.fields["resSeq"], r.fields["segment_id"],
                         [(a.fields["name"], a.fields["element"], a.fields["serial"]) for a in r.fields["_atoms"]]))
        out.append((c.fields["chain_id"], cres))
    return out


def flat_atoms(top):
    return [a for c in top.fields["_chains"] for r in c.fields["_residues"] for a in r.fields["_atoms"]]


def bonds_of(top):
    return [(b.fields["_tuple"][0], b.fields["_tuple"][1], b.fields["type"], b.fields["order"]) for b in top.fields["_bonds"]]


def eqv(a, b):
    """equality of two attribute values as a z3 Bool / python bool"""
    if core.is_sym(a) or core.is_sym(b):
        if a is None or b is None:
            return False
        return core.term(a) == core.term(b)
    return (a is b) or (a == b and type(a) is type(b))


def ensure_view(ctx, prefix, got, want):
    ctx.ensure(f"{prefix}:n_chains", len(got) == len(want))
    for ci, (gc, wc) in enumerate(zip(got, want)):
        ctx.ensure(f"{prefix}:chain{ci}.chain_id", eqv(gc[0], wc[0]))
        ctx.ensure(f"{prefix}:chain{ci}.n_residues", len(gc[1]) == len(wc[1]))
        for rj, (gr, wr) in enumerate(zip(gc[1], wc[1])):
            for k, nm in enumerate(("name", "resSeq", "segment_id")):
                ctx.ensure(f"{prefix}:chain{ci}.res{rj}.{nm}", eqv(gr[k], wr[k]))
            ctx.ensure(f"{prefix}:chain{ci}.res{rj}.n_atoms", len(gr[3]) == len(wr[3]))
            for ak, (ga, wa) in enumerate(zip(gr[3], wr[3])):
                for k, nm in enumerate(("name", "element", "serial")):
                    ctx.ensure(f"{prefix}:chain{ci}.res{rj}.atom{ak}.{nm}", eqv(ga[k], wa[k]))


def ensure_wf(ctx, prefix, top):
    atoms = flat_atoms(top)
    ctx.ensure(f"{prefix}:wf:_atoms-is-the-flattening", len(top.fields["_atoms"]) == len(atoms) and all(x is y for x, y in zip(top.fields["_atoms"], atoms)))
    ctx.ensure(f"{prefix}:wf:atom.index==position", all(eqv(a.fields["index"], i) is True or eqv(a.fields["index"], i) == True for i, a in enumerate(atoms)))  # noqa: E712
    res = [r for c in top.fields["_chains"] for r in c.fields["_residues"]]
    ctx.ensure(f"{prefix}:wf:residue.index==position", all(r.fields["index"] == i for i, r in enumerate(res)))
    ctx.ensure(f"{prefix}:wf:chain.index==position", all(c.fields["index"] == i for i, c in enumerate(top.fields["_chains"])))
    ctx.ensure(f"{prefix}:wf:_numAtoms", top.fields["_numAtoms"] == len(atoms))
    ctx.ensure(f"{prefix}:wf:_numResidues", top.fields["_numResidues"] == len(res))
    ctx.ensure(f"{prefix}:wf:_residues-list", len(top.fields["_residues"]) == len(res) and all(x is y for x, y in zip(top.fields["_residues"], res)))
    ctx.ensure(f"{prefix}:wf:back-pointers", all(a.fields["residue"] is r for c in top.fields["_chains"] for r in c.fields["_residues"] for a in r.fields["_atoms"])
               and all(r.fields["chain"] is c for c in top.fields["_chains"] for r in c.fields["_residues"]))
    own = set(map(id, atoms))
    ctx.ensure(f"{prefix}:wf:bond-endpoints-are-own-atoms", all(id(b[0]) in own and id(b[1]) in own for b in bonds_of(top)))


def ensure_bonds(ctx, prefix, top, want):
    """want: list of (i, j, type, order) over the atom indices of `top`"""
    atoms = flat_atoms(top)
    pos = {id(a): i for i, a in enumerate(atoms)}
    got = []
    for a1, a2, t, o in bonds_of(top):
        got.append((pos.get(id(a1), -1), pos.get(id(a2), -1), t, o))
    norm = lambda L: sorted(((min(i, j), max(i, j), repr(t), o if o is not None else 0) for i, j, t, o in L))
    ctx.ensure(f"{prefix}:bond-graph-with-type-and-order", norm(got) == norm(want))


@contract("C04", "mdtraj/core/topology.py", "Topology.copy", cases=["copy", "__deepcopy__", "__copy__"], replay="topology")
def top_copy(ctx, case):
    mod, elems = setup(ctx)
    top, view, bonds, atoms = build(ctx, mod, elems, "a")
    out = ctx.call_method(top, case) if case == "copy" else ctx.call_method(top, case, {})
    ctx.ensure("no-exception", not out.raised)
    if out.raised:
        return
    r = out.value
    ensure_view(ctx, "view(copy)==view(self)", view_of(r), view)
    ensure_bonds(ctx, "copy", r, bonds)
    ensure_wf(ctx, "copy", r)
    # independence: no object shared
    mine = set(map(id, flat_atoms(top))) | {id(c) for c in top.fields["_chains"]} | {id(x) for c in top.fields["_chains"] for x in c.fields["_residues"]}
    theirs = set(map(id, flat_atoms(r))) | {id(c) for c in r.fields["_chains"]} | {id(x) for c in r.fields["_chains"] for x in c.fields["_residues"]}
    ctx.ensure("independence:no-chain/residue/atom-object-shared", not (mine & theirs))
    ctx.ensure("source-unchanged", view_of(top) == view and len(bonds_of(top)) == len(bonds))


def restrict(view, bonds, S):
    """specification of subset: keep atoms in S, drop empty residues/chains, renumber, keep bond iff both ends kept"""
    newv, k, m = [], 0, {}
    for cid, cres in view:
        nres = []
        for name, resSeq, seg, ratoms in cres:
            keep = []
            for a in ratoms:
                if k in S:
                    m[k] = len(m)
                    keep.append(a)
                k += 1
            if keep:
                nres.append((name, resSeq, seg, keep))
        if nres:
            newv.append((cid, nres))
    nb = [(m[i], m[j], t, o) for i, j, t, o in bonds if i in m and j in m]
    return newv, nb


SUBSETS = [S for n in range(1, 6) for S in itertools.combinations(range(5), n)]


@contract("C04", "mdtraj/core/topology.py", "_topology_from_subset", cases=SUBSETS, replay="topology", max_paths=400)
def top_subset(ctx, case):
    S = list(case)
    mod, elems = setup(ctx)
    top, view, bonds, atoms = build(ctx, mod, elems, "a")
    out = ctx.call_method(top, "subset", S)
    ctx.ensure("no-exception", not out.raised)
    if out.raised:
        return
    r = out.value
    wantv, wantb = restrict(view, bonds, set(S))
    ensure_view(ctx, "view(subset)==restrict(view,S)", view_of(r), wantv)
    ensure_bonds(ctx, "subset", r, wantb)
    ensure_wf(ctx, "subset", r)
    ctx.ensure("source-unchanged", view_of(top) == view and len(bonds_of(top)) == len(bonds))


@contract("C04", "mdtraj/core/topology.py", "Topology.join", cases=[True], replay="topology")
def top_join(ctx, case):
    mod, elems = setup(ctx)
    a, va, ba, _ = build(ctx, mod, elems, "a")
    b, vb, bb, _ = build(ctx, mod, elems, "b")
    out = ctx.call_method(a, "join", b, keep_resSeq=case)
    ctx.ensure("no-exception", not out.raised)
    if out.raised:
        return
    r = out.value
    ensure_view(ctx, "view(join)==view(a)++view(b)", view_of(r), va + vb)
    n = 5
    ensure_bonds(ctx, "join", r, ba + [(i + n, j + n, t, o) for i, j, t, o in bb])
    ensure_wf(ctx, "join", r)
    ctx.ensure("sources-unchanged", view_of(a) == va and view_of(b) == vb)


@contract("C04", "mdtraj/core/topology.py", "Topology.insert_atom|delete_atom_by_index|add_bond", cases=["insert-mid", "insert-end", "delete0", "delete3", "add_bond"], replay="topology")
def top_edit(ctx, case):
    mod, elems = setup(ctx)
    top, view, bonds, atoms = build(ctx, mod, elems, "a")
    I = ctx.interp
    if case.startswith("insert"):
        res = top.fields["_chains"][0].fields["_residues"][0]
        kw = {"index": 1, "rindex": 1} if case == "insert-mid" else {}
        out = ctx.call_method(top, "insert_atom", "X", elems["carbon"], res, **kw)
    elif case.startswith("delete"):
        out = ctx.call_method(top, "delete_atom_by_index", int(case[-1]))
    else:
        out = ctx.call_method(top, "add_bond", atoms[4], atoms[0])
    ctx.ensure("no-exception", not out.raised)
    if out.raised:
        return
    atoms_now = flat_atoms(top)
    # indices stay positions, counters stay lengths (bond endpoints of a deleted atom are outside this clause)
    ctx.ensure("edit:atom.index==position-in-_atoms", all(a.fields["index"] == i for i, a in enumerate(top.fields["_atoms"])))
    ctx.ensure("edit:_numAtoms", top.fields["_numAtoms"] == len(top.fields["_atoms"]) == len(atoms_now))
    if case == "add_bond":
        b = bonds_of(top)[-1]
        ctx.ensure("add_bond:stored-lower-index-first", b[0] is atoms[0] and b[1] is atoms[4])


@contract("C04", "mdtraj/core/topology.py", "Topology.__eq__/__hash__", cases=["resSeq", "serial", "segment_id", "chain_id", "name", "identical"], replay="topology")
def eq_hash(ctx, case):
    """a == b  =>  hash(a) == hash(b):  b is a rebuilt twin of a that differs in ONE attribute kind (or none)"""
    mod, elems = setup(ctx)
    a, va, ba, aa = build(ctx, mod, elems, "a", symbolic=False)
    b, vb, bb, ab = build(ctx, mod, elems, "a", symbolic=False)
    r0 = b.fields["_chains"][0].fields["_residues"][0]
    if case == "resSeq":
        r0.fields["resSeq"] = 999
    elif case == "serial":
        ab[0].fields["serial"] = 999
    elif case == "segment_id":
        r0.fields["segment_id"] = "other"
    elif case == "chain_id":
        b.fields["_chains"][0].fields["chain_id"] = "other"
    elif case == "name":
        ab[0].fields["name"] = "other"
    eq = ctx.call_method(a, "__eq__", b)
    ctx.ensure("eq:no-exception", not eq.raised)
    if eq.raised:
        return
    equal = ctx.interp.truth(eq.value)
    ha, hb = ctx.call_method(a, "__hash__"), ctx.call_method(b, "__hash__")
    ctx.ensure("hash:no-exception", not ha.raised and not hb.raised)
    if ha.raised or hb.raised:
        return
    if equal:
        ctx.cover("equal")
        ctx.ensure("a==b=>hash(a)==hash(b)", ha.value == hb.value)
    if case == "identical":
        ctx.ensure("rebuilt-twin-compares-equal", equal)


# =====================================================================================================
# Topology carried by an HDF5 file: HDF5TrajectoryFile.topology setter followed by the getter (mdtraj/formats/hdf5.py)
class _JsonText:
    """the JSON text of a Python value: json.dumps / .encode / .decode / json.loads are the identity on the value it denotes
    (trusted: JSON represents dicts, lists, ints and strings exactly); loads returns fresh containers"""

    def __init__(self, value):
        self.value = value

    def encode(self, *_a):
        return self

    def decode(self, *_a):
        return self


def _fresh(v):
    if isinstance(v, dict):
        return {k: _fresh(x) for k, x in v.items()}
    if isinstance(v, list):
        return [_fresh(x) for x in v]
    return v


class _H5Top:
    """PyTables handle as far as the topology property uses it: one optional array node named 'topology'"""

    def __init__(self, NoSuch):
        self.nodes, self.NoSuch, self.events = {}, NoSuch, []

    def sym_getattr(self, interp, name):
        if name == "get_node":
            def get_node(where="/", name=None):
                if name in self.nodes:
                    return self.nodes[name]
                raise PyExc(ExcInst(self.NoSuch, (name,)))
            return get_node
        if name == "remove_node":
            def remove_node(where="/", name=None):
                if name not in self.nodes:
                    raise PyExc(ExcInst(self.NoSuch, (name,)))
                del self.nodes[name]
                self.events.append(("remove", name))
            return remove_node
        if name == "create_array":
            def create_array(where="/", name=None, obj=None):
                self.nodes[name] = list(obj)
                self.events.append(("create", name))
            return create_array
        raise Unsupported("h5 handle." + name)


@contract("C04", "mdtraj/formats/hdf5.py", "HDF5TrajectoryFile.topology(setter;getter)", replay="topology")
def hdf5_topology(ctx, case):
    """what the HDF5 schema can hold comes back unchanged for EVERY value of resSeq (symbolic, includes 0 and negatives): chains,
    residue names, resSeq, segment ids, atom names, elements, bonds as index pairs, in order.  (chain ids, serials and bond
    types/orders are not part of the schema: recorded known finding, not demanded here.)"""
    mod, elems = setup(ctx)
    I = ctx.interp
    im = I.import_models
    Top = mod.globals["Topology"]
    im["mdtraj.core.topology"] = Namespace("topology", Topology=Top)
    by_symbol = {e.symbol: e for e in elems.values()}

    def get_by_symbol(sym):
        if sym in by_symbol:
            return by_symbol[sym]
        raise PyExc(ExcInst(EXC["KeyError"], (sym,)))

    im["mdtraj.core.element"] = Namespace("element", get_by_symbol=get_by_symbol, virtual=elems["virtual"])
    js = Namespace("json", dumps=lambda v: _JsonText(v), loads=lambda t: _fresh(t.value))
    im["json"] = js
    im["simplejson"] = js
    im["mdtraj"] = Namespace("mdtraj", __version__="x", core=Namespace("core", element=im["mdtraj.core.element"]))
    import operator as _op

    im["operator"] = _op
    h5 = ctx.module("mdtraj/formats/hdf5.py")
    NoSuch = ExcClass("NoSuchNodeError", [EXC["Exception"]])
    handle = _H5Top(NoSuch)
    f = Obj(h5.globals["HDF5TrajectoryFile"])
    f.fields.update(_open=True, mode="w", _handle=handle, tables=Namespace("tables", NoSuchNodeError=NoSuch))
    top, view, bonds, atoms = build(ctx, mod, elems, "t", symbolic=True)
    try:
        I.setattr(f, "topology", top)
        raised = None
    except PyExc as e:
        raised = e
    ctx.ensure("setter:no-exception", raised is None)
    if raised is not None:
        return
    ctx.ensure("setter:exactly-one-topology-node-stored", sorted(handle.nodes) == ["topology"])
    f.fields["mode"] = "r"
    out = ctx.call(lambda: I.getattr(f, "topology"))
    ctx.ensure("getter:no-exception", not out.raised)
    if out.raised:
        return
    ctx.cover("round-trip")
    got = out.value
    ctx.ensure("result-is-a-new-topology", got is not top)
    gv = view_of(got)
    ctx.ensure("same-number-of-chains", len(gv) == len(view))
    for ci, ((_cid, cres), (_gcid, gres)) in enumerate(zip(view, gv)):
        ctx.ensure(f"chain{ci}:same-number-of-residues", len(cres) == len(gres))
        for ri, ((rn, rseq, seg, ratoms), (grn, grseq, gseg, gatoms)) in enumerate(zip(cres, gres)):
            ctx.ensure(f"chain{ci}.res{ri}:name", eqv(rn, grn))
            ctx.ensure(f"chain{ci}.res{ri}:resSeq(every-value,including-0)", eqv(rseq, grseq))
            ctx.ensure(f"chain{ci}.res{ri}:segment-id", eqv(seg, gseg))
            ctx.ensure(f"chain{ci}.res{ri}:same-number-of-atoms", len(ratoms) == len(gatoms))
            for ai, ((an, ae, _s), (gan, gae, _gs)) in enumerate(zip(ratoms, gatoms)):
                ctx.ensure(f"chain{ci}.res{ri}.atom{ai}:name-and-element", eqv(an, gan) and (ae is gae))
    gat = flat_atoms(got)
    gb = [(gat.index(b.fields["_tuple"][0]) if False else [x for x in range(len(gat)) if gat[x] is b.fields["_tuple"][0]][0],
           [x for x in range(len(gat)) if gat[x] is b.fields["_tuple"][1]][0]) for b in got.fields["_bonds"]]
    ctx.ensure("bonds:same-index-pairs-in-order", gb == [(i, j) for (i, j, _t, _o) in bonds])
    ctx.ensure("bonds-join-the-result's-own-atoms", all(any(a is x for x in gat) for b in got.fields["_bonds"] for a in b.fields["_tuple"]))


# ---- carrier: pandas DataFrame (to_dataframe -> from_dataframe) ---------------------------------------------------------------
class _DF:
    """the part of pandas.DataFrame the two functions use: rows of a table with named columns and a 0..n-1 index"""

    def __init__(self, data, columns):
        self.columns = list(columns)
        self.rows = [dict(zip(self.columns, r)) for r in data]
        import numpy as _np

        self.index = _np.arange(len(self.rows))

    def __len__(self):
        return len(self.rows)

    def __setitem__(self, col, val):
        if col not in self.columns:
            self.columns.append(col)
        for r in self.rows:
            r[col] = val

    def iterrows(self):
        return [(i, r) for i, r in enumerate(self.rows)]


@contract("C04", "mdtraj/core/topology.py", "Topology.to_dataframe;from_dataframe", cases=["distinct-residues", "same-residue-label-across-the-chain-boundary"], replay="topology",
          max_paths=400)
def top_dataframe(ctx, case):
    """view(from_dataframe(*to_dataframe(t))) == view(t) up to the chain ids (the table stores the chain INDEX): same chains, residues
    (name, resSeq, segment id), atoms (name, element, serial) and bonds with type and order; also when the last residue of a chain and the
    first residue of the next chain carry the same name and resSeq."""
    mod, elems = setup(ctx)
    sym = {e.symbol: e for e in elems.values()}
    ctx.interp.import_models["mdtraj.core"]._attrs["element"]._attrs["get_by_symbol"] = lambda s: sym[s]
    mod.globals["import_"] = lambda name: Namespace("pandas", DataFrame=_DF)
    top, view, bonds, atoms = build(ctx, mod, elems, "a")
    # bonds carry the module's own type objects (float(type) is their code)
    g = mod.globals
    types = [g["Single"], None, g["Double"], g["Amide"]]
    orders = [2, None, 1, 3]  # chosen so that no order equals int(code of the bond's type)
    for b, t, o in zip(top.fields["_bonds"], types, orders):
        b.fields["type"], b.fields["order"] = t, o
    bonds = [(i, j, t, o) for (i, j, _, _), t, o in zip(bonds, types, orders)]
    if case != "distinct-residues":
        # chain 0 ends with a residue labelled like the first residue of chain 1
        r_last = top.fields["_chains"][0].fields["_residues"][-1]
        r_first = top.fields["_chains"][1].fields["_residues"][0]
        r_first.fields["name"] = r_last.fields["name"]
        r_first.fields["resSeq"] = r_last.fields["resSeq"]
        view = view_of(top)
    out = ctx.call_method(top, "to_dataframe")
    ctx.ensure("to_dataframe:no-exception", not out.raised)
    if out.raised:
        return
    atoms_df, bonds_arr = out.value
    back = ctx.call(mod.globals["Topology"].lookup("from_dataframe"), atoms_df, bonds_arr) if False else ctx.call_method(mod.globals["Topology"], "from_dataframe", atoms_df, bonds_arr)
    ctx.ensure("from_dataframe:no-exception" + (f"({back.exc.inst!r})"[:120] if back.raised else ""), not back.raised)
    if back.raised:
        return
    r = back.value
    got, want = view_of(r), view
    strip = lambda v: [("<chain>", c[1]) for c in v]
    ensure_view(ctx, "view(from_dataframe(to_dataframe(t)))==view(t)(chain-ids-aside)", strip(got), strip(want))
    ensure_bonds(ctx, "dataframe", r, bonds)
    ensure_wf(ctx, "dataframe", r)
    ctx.ensure("source-unchanged", view_of(top) == view)
