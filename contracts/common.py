"""Shared set-up of the symbolic interpreter for all contracts: import models (assumed contracts
of external packages and of mdtraj helpers that are themselves under contract elsewhere)."""
from mdvc import core, models
from mdvc.core import Unsupported
from mdvc.models import FrameSel, trusted
from mdvc.pyinterp import Namespace, OpaqueModule

# unit conversion factors used by the file formats (checked against the real unit library by
# the C01 obligation `unit-factor-table`)
UNIT_FACTORS = {
    ("nanometers", "angstroms"): 10.0,
    ("angstroms", "nanometers"): 0.1,
    ("nanometers", "nanometers"): 1.0,
    ("angstroms", "angstroms"): 1.0,
    ("picoseconds", "picoseconds"): 1.0,
    ("degrees", "degrees"): 1.0,
    ("angstrom", "nanometers"): 0.1,
    ("nanometers", "angstrom"): 10.0,
}

trusted(
    "mdtraj.utils.in_units_of",
    "in_units_of(q, u_in, u_out) returns None for None, otherwise q * factor(u_in,u_out) with the factor of "
    "the unit library (10 for nm->A, 0.1 for A->nm, 1 for identical units); in place only when inplace=True",
)


def in_units_of(interp):
    def f(quantity, units_in=None, units_out=None, inplace=False):
        if quantity is None:
            return None
        if units_in is None:
            return quantity
        if hasattr(units_in, "decode"):
            units_in = units_in.decode()
        key = (units_in, units_out)
        if key not in UNIT_FACTORS:
            raise Unsupported(f"unit conversion {key}")
        k = UNIT_FACTORS[key]
        if hasattr(quantity, "scaled"):
            return quantity.scaled(k, inplace)
        if isinstance(quantity, FrameSel):
            if inplace:
                quantity.scale = quantity.scale * k
                return quantity
            return FrameSel(quantity.base, quantity.start, quantity.count, quantity.step, quantity.atoms,
                            quantity.scale * k)
        if isinstance(quantity, (int, float)) or core.is_sym(quantity):
            return quantity * k
        raise Unsupported("in_units_of on this value")
    return f


class RepoSymbol:
    """A name imported from another module of /repo: resolved lazily by loading that module's real
    source with the same interpreter (the callee is inlined: a change in it shows in the caller's VCs)."""

    def __init__(self, interp, relpath, name):
        self.interp, self.relpath, self.name = interp, relpath, name

    def resolve(self):
        return self.interp.load_module(self.relpath).globals[self.name]

    def sym_call(self, interp, args, kwargs):
        return interp.call(self.resolve(), args, kwargs)

    def sym_getattr(self, interp, name):
        return interp.getattr(self.resolve(), name)


def setup_interp(interp, con=None):
    from mdvc.npmodel import NumpyT

    models.install_std(interp)
    interp.import_models["numpy"] = NumpyT()
    interp.import_models["collections.abc"] = __import__("collections").abc
    utils = Namespace(
        "mdtraj.utils",
        in_units_of=in_units_of(interp),
        import_=lambda name: interp.import_models.get(name, OpaqueModule(name)),
        open_maybe_zipped=RepoSymbol(interp, "mdtraj/utils/zipped.py", "open_maybe_zipped"),
        ensure_type=RepoSymbol(interp, "mdtraj/utils/validation.py", "ensure_type"),
        cast_indices=RepoSymbol(interp, "mdtraj/utils/validation.py", "cast_indices"),
        lengths_and_angles_to_box_vectors=RepoSymbol(interp, "mdtraj/utils/unitcell.py", "lengths_and_angles_to_box_vectors"),
        box_vectors_to_lengths_and_angles=RepoSymbol(interp, "mdtraj/utils/unitcell.py", "box_vectors_to_lengths_and_angles"),
    )
    interp.import_models["mdtraj.utils.validation"] = utils
    interp.import_models["mdtraj.utils.unitcell"] = utils

    class _Registry:
        """FormatRegistry.register_loader / register_fileobject are identity decorators that fill two dicts"""

        def __init__(self):
            self.loaders, self.fileobjects = {}, {}

        def sym_getattr(self, interp_, name):
            if name in ("loaders", "fileobjects"):
                return getattr(self, name)
            table = self.loaders if name == "register_loader" else self.fileobjects

            def reg(ext):
                def deco(f):
                    table[ext] = f
                    return f
                return deco
            return reg

    interp.import_models["mdtraj.formats.registry"] = Namespace("registry", FormatRegistry=_Registry())
    interp.import_models["mdtraj.utils"] = utils
    interp.import_models["mdtraj.utils.unit"] = utils
    return interp
