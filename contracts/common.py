"""Shared set-up of the symbolic interpreter for all contracts: import models (assumed contracts
of external packages and of mdtraj helpers that are themselves under contract elsewhere)."""
from mdvc import core, models
from mdvc.core import Unsupported
from mdvc.models import FrameSel, trusted
from mdvc.pyinterp import Namespace, OpaqueModule

# unit conversion factors used by the file formats (checked against the real unit library by
# the C01 obligation `unit-factor-table`)
UNIT_FACTORS = {
    ("nanometers", "angstroms"): 10.0,
    ("angstroms", "nanometers"): 0.1,
    ("nanometers", "nanometers"): 1.0,
    ("angstroms", "angstroms"): 1.0,
    ("picoseconds", "picoseconds"): 1.0,
    ("degrees", "degrees"): 1.0,
    ("angstrom", "nanometers"): 0.1,
    ("nanometers", "angstrom"): 10.0,
}

trusted(
    "mdtraj.utils.in_units_of",
    "in_units_of(q, u_in, u_out) returns None for None, otherwise q * factor(u_in,u_out) with the factor of "
    "the unit library (10 for nm->A, 0.1 for A->nm, 1 for identical units); in place only when inplace=True",
)


def in_units_of(interp):
    def f(quantity, units_in=None, units_out=None, inplace=False):
        if quantity is None:
            return None
        if units_in is None:
            return quantity
        if hasattr(units_in, "decode"):
            units_in = units_in.decode()
        key = (units_in, units_out)
        if key not in UNIT_FACTORS:
            raise Unsupported(f"unit conversion {key}")
        k = UNIT_FACTORS[key]
        if hasattr(quantity, "scaled"):
            return quantity.scaled(k, inplace)
        if isinstance(quantity, FrameSel):
            if inplace:
                quantity.scale = quantity.scale * k
                return quantity
            return FrameSel(quantity.base, quantity.start, quantity.count, quantity.step, quantity.atoms,
                            quantity.scale * k)
        if isinstance(quantity, (int, float)) or core.is_sym(quantity):
            return quantity * k
        raise Unsupported("in_units_of on this value")
    return f


def setup_interp(interp, con=None):
    models.install_std(interp)
    utils = Namespace(
        "mdtraj.utils",
        in_units_of=in_units_of(interp),
        import_=lambda name: interp.import_models.get(name, OpaqueModule(name)),
    )
    interp.import_models["mdtraj.utils"] = utils
    interp.import_models["mdtraj.utils.unit"] = utils
    return interp
