"""C19 -- the streaming text writers xyz, mdcrd and lammpstrj: any partition of the frames into write() calls gives the same text.

`write` is executed on symbolic coordinates (2 frames x 2 atoms; with/without cell for mdcrd); every `self._fh.write(...)` is recorded as a
stream of tokens: literal text and FORMATTED symbolic numbers (value, format specification) -- number formatting itself is not modelled.

  one call with both frames   vs   one call per frame on a fresh handle:   the two token streams are identical  (so by induction every
        partition of a frame sequence gives the same file: the writer keeps no per-call state that reaches the output);
  layout: xyz     per frame `<n_atoms>`, a comment line, then one line `type x y z` per atom with x, y, z formatted `8.3f`, atoms in order;
          mdcrd   ONE title line at the first write only, per frame the 3N coordinates `%8.3f` in atom order, ten per line, a newline after the
                  last, then (files with a cell) the line of the three cell lengths `8.3f`;
  mdcrd refusals: once the first write fixed whether the file carries cell lengths, a write with the other kind raises ValueError BEFORE
                  anything is written (the stream is unchanged), so the file still holds exactly the accepted frames; the refusal leaves the
                  handle's state as it was (the same ragged write is refused again, a write of the file's own kind is still accepted).
The atom-count raggedness of these writers is a recorded finding of the bounded layer (known_findings.txt), not claimed here.
"""
import numpy as _np
import z3

from mdvc import core
from mdvc.core import SInt, SReal, rterm
from mdvc.pyinterp import Formatted, Namespace, Obj
from mdvc.verify import contract

from . import c03


class Tok:
    """a formatted number: what `'%8.3f' % v`, `f'{v:8.3f}'` or `'{:8.3f}'.format(v)` produces for a symbolic v"""

    def __init__(self, value, spec):
        self.value, self.spec = value, spec.lstrip("%").lstrip(":")

    def sym_len(self, interp):
        # an `8.3f` field is 8 characters wide unless the value needs more: -999.9995 < v < 9999.9995 (then exactly 8)
        v = rterm(self.value)
        fits = z3.And(v > z3.RealVal("-999.9995"), v < z3.RealVal("9999.9995"))
        return 8 if interp.truth(core.SBool(fits)) else 9

    def encode(self, *a):
        return self

    def key(self):
        return ("num", z3.simplify(rterm(self.value)).sexpr(), self.spec)


class Sink:
    def __init__(self):
        self.items = []

    def write(self, s):
        if isinstance(s, (bytes, bytearray)):
            s = s.decode("ascii")
        self.items.append(s)

    def stream(self):
        """the text as a list of comparable tokens; adjacent literal pieces are joined"""
        out = []
        for it in self.items:
            parts = it.parts if isinstance(it, Line) else [it]
            for p in parts:
                k = p.key() if isinstance(p, Tok) else ("txt", p)
                if out and out[-1][0] == "txt" and k[0] == "txt":
                    out[-1] = ("txt", out[-1][1] + k[1])
                else:
                    out.append(k)
        return out


class Line:
    def __init__(self, parts):
        self.parts = parts

    def encode(self, *a):
        return self


def hooks(ctx):
    I = ctx.interp
    I.fstring_hook = lambda e, parts: Line([Tok(p.value, p.spec) if isinstance(p, Formatted) else (p if isinstance(p, str) else Tok(p, "")) for p in parts])

    def pct(fmt, args):
        if len(args) == 1 and fmt.count("%") == 1 and fmt.startswith("%"):
            return Tok(args[0], fmt)
        raise core.Unsupported(f"% formatting {fmt!r}")
    I.format_hook = pct

    def strformat(fmt, args, kwargs):
        import re
        pieces = re.split(r"(\{[^}]*\})", fmt)
        out, k = [], 0
        for p in pieces:
            if p.startswith("{") and p.endswith("}"):
                out.append(Tok(args[k], p[1:-1]))
                k += 1
            elif p:
                out.append(p)
        return Line(out)
    I.strformat_hook = strformat


def setup(ctx, fmt):
    c03.install(ctx)
    im = ctx.interp.import_models
    im["numpy"] = Namespace("numpy", float32="float32")
    im["datetime"] = Namespace("datetime", date=Namespace("date", today=lambda: "<today>"))
    im["mdtraj"] = Namespace("mdtraj", __version__="<version>")
    valid = lambda x, *a, **k: x
    for name in ("mdtraj.utils", "mdtraj.utils.validation"):
        im[name]._attrs["ensure_type"] = valid
    relfile, clsname = {"xyz": ("mdtraj/formats/xyzfile.py", "XYZTrajectoryFile"), "mdcrd": ("mdtraj/formats/mdcrd.py", "MDCRDTrajectoryFile")}[fmt]
    mod = ctx.module(relfile)
    mod.globals["ensure_type"] = valid
    hooks(ctx)
    return mod, mod.globals[clsname]


def handle(cls, fmt):
    h = Obj(cls)
    sink = Sink()
    h.fields.update(_mode="w", _is_open=True, _fh=sink, _filename="/data/f." + fmt, _frame_index=0, _line_counter=0, _w_has_box=None, _n_atoms=None)
    return h, sink


F, A = 2, 2


def frames(ctx):
    X = [[[ctx.real(f"x{f}_{a}_{k}") for k in range(3)] for a in range(A)] for f in range(F)]
    L = [[ctx.real(f"L{f}_{k}") for k in range(3)] for f in range(F)]
    arr = lambda fs: _np.array([[[X[f][a][k] for k in range(3)] for a in range(A)] for f in fs], dtype=object)
    box = lambda fs: _np.array([[L[f][k] for k in range(3)] for f in fs], dtype=object)
    return X, L, arr, box


def num(v, spec="8.3f"):
    return ("num", z3.simplify(rterm(v)).sexpr(), spec)


def xyz_writer(ctx, case=None):
    mod, cls = setup(ctx, "xyz")
    X, L, arr, box = frames(ctx)
    h1, s1 = handle(cls, "xyz")
    o = ctx.call_method(h1, "write", arr([0, 1]))
    ctx.ensure("one-call:no-exception", not o.raised)
    h2, s2 = handle(cls, "xyz")
    o1 = ctx.call_method(h2, "write", arr([0]))
    o2 = ctx.call_method(h2, "write", arr([1]))
    ctx.ensure("two-calls:no-exception", not o1.raised and not o2.raised)
    if o.raised or o1.raised or o2.raised:
        return
    ctx.cover("written")
    a, b = s1.stream(), s2.stream()
    ctx.ensure("one-call-with-two-frames==two-calls-with-one-frame-each(token-streams-identical)", a == b)
    want = []
    for f in range(F):
        want.append(("txt", f"{A}\nCreated with MDTraj <version>, <today>\n"))
        for at in range(A):
            want += [("txt", "X "), num(X[f][at][0]), ("txt", " "), num(X[f][at][1]), ("txt", " "), num(X[f][at][2]), ("txt", "\n")]
    joined = []
    for k in want:
        if joined and joined[-1][0] == "txt" and k[0] == "txt":
            joined[-1] = ("txt", joined[-1][1] + k[1])
        else:
            joined.append(k)
    ctx.ensure("layout:per-frame-count-line,comment-line,one-`type-x-y-z`-line-per-atom-in-order(8.3f)", a == joined)


contract("C19", "mdtraj/formats/xyzfile.py", "XYZTrajectoryFile.write", replay="writer:text", covers=["written"], max_paths=100)(xyz_writer)


def mdcrd_writer(ctx, case):
    mod, cls = setup(ctx, "mdcrd")
    X, L, arr, box = frames(ctx)
    # values inside the 8-character field (otherwise the writer raises its documented overflow error)
    fit = lambda v: z3.And(rterm(v) > z3.RealVal("-999.9995"), rterm(v) < z3.RealVal("9999.9995"))
    ctx.assume(*[fit(X[f][a][k]) for f in range(F) for a in range(A) for k in range(3)], *[fit(L[f][k]) for f in range(F) for k in range(3)])
    first, second = case
    kw = lambda has, fs: ({"cell_lengths": box(fs)} if has else {})
    if first == second:
        h1, s1 = handle(cls, "mdcrd")
        o = ctx.call_method(h1, "write", arr([0, 1]), **kw(first, [0, 1]))
        ctx.ensure("one-call:no-exception", not o.raised)
    h2, s2 = handle(cls, "mdcrd")
    o1 = ctx.call_method(h2, "write", arr([0]), **kw(first, [0]))
    ctx.ensure("first-write:no-exception", not o1.raised)
    if o1.raised:
        return
    before = list(s2.stream())
    o2 = ctx.call_method(h2, "write", arr([1]), **kw(second, [1]))
    if first != second:
        ctx.cover("refused")
        ctx.ensure("a-write-that-adds-or-drops-the-cell-lengths-is-refused-with-ValueError", o2.raised and o2.exc.name == "ValueError")
        ctx.ensure("refused:nothing-was-written(the-file-holds-exactly-the-accepted-frame)", s2.stream() == before)
        # the refusal must not change what the file is: the SAME ragged write is refused again, and a write of the file's own kind still goes through
        ctx.ensure("refused:the-handle-still-knows-whether-the-file-carries-cell-lengths", h2.fields.get("_w_has_box") is first)
        o3 = ctx.call_method(h2, "write", arr([1]), **kw(second, [1]))
        ctx.ensure("refused-again:the-same-ragged-write-is-refused-a-second-time", o3.raised and o3.exc.name == "ValueError" and s2.stream() == before)
        o4 = ctx.call_method(h2, "write", arr([1]), **kw(first, [1]))
        ctx.ensure("after-a-refusal-a-write-of-the-file's-own-kind-is-accepted", not o4.raised)
        return
    ctx.ensure("second-write:no-exception", not o2.raised)
    if o2.raised or o.raised:
        return
    ctx.cover("written")
    a, b = s1.stream(), s2.stream()
    ctx.ensure("one-call-with-two-frames==two-calls-with-one-frame-each(token-streams-identical)", a == b)
    want = [("txt", f"TITLE : Created by MDTraj with {A} atoms\n")]
    for f in range(F):
        for at in range(A):
            for k in range(3):
                want.append(num(X[f][at][k]))
        want.append(("txt", "\n"))
        if first:
            want += [num(L[f][0]), ("txt", " "), num(L[f][1]), ("txt", " "), num(L[f][2]), ("txt", "\n")]
    ctx.ensure("layout:one-title-line,then-per-frame-the-3N-coordinates-in-atom-order(8.3f),newline" + (",cell-lengths-line" if first else ""), b == want)


contract("C19", "mdtraj/formats/mdcrd.py", "MDCRDTrajectoryFile.write", cases=[(True, True), (False, False), (True, False), (False, True)], replay="writer:text",
         covers=[], max_paths=400)(mdcrd_writer)


def lammps_writer(ctx, case=None):
    """LAMMPSTrajectoryFile.write (orthogonal cells): one call with two frames vs one call per frame give the same token stream EXCEPT the number on
    the line after `ITEM: TIMESTEP` (the call-local frame counter; the reader does not use it), and every frame is header, box bounds
    `min_k  min_k + length_k`, then one line `id type x y z` per atom (ids 1..n in order, coordinates `8.3f`)."""
    from mdvc import npobj

    c03.install(ctx)
    im = ctx.interp.import_models
    im["numpy"] = npobj.NumpyO()

    def valid(x, dtype=None, *a, **k):
        # ensure_type: validation is under contract elsewhere (C03); here it only performs its dtype cast of concrete arrays
        if dtype is int and isinstance(x, _np.ndarray) and x.dtype != object:
            return x.astype(int)
        return x
    for name in ("mdtraj.utils", "mdtraj.utils.validation"):
        im[name]._attrs["ensure_type"] = valid
    im["itertools"] = Namespace("itertools", count=lambda *a: None)
    mod = ctx.module("mdtraj/formats/lammpstrj.py")
    mod.globals["ensure_type"] = valid
    cls = mod.globals["LAMMPSTrajectoryFile"]
    hooks(ctx)
    X, L, arr, box = frames(ctx)
    ang = lambda fs: _np.array([[90.0, 90.0, 90.0] for _ in fs], dtype=object)
    oarr = lambda a: a.view(npobj.OArr)
    h1, s1 = handle(cls, "lammpstrj")
    o = ctx.call_method(h1, "write", oarr(arr([0, 1])), oarr(box([0, 1])), ang([0, 1]))
    ctx.ensure("one-call:no-exception", not o.raised)
    h2, s2 = handle(cls, "lammpstrj")
    o1 = ctx.call_method(h2, "write", oarr(arr([0])), oarr(box([0])), ang([0]))
    o2 = ctx.call_method(h2, "write", oarr(arr([1])), oarr(box([1])), ang([1]))
    ctx.ensure("two-calls:no-exception", not o1.raised and not o2.raised)
    if o.raised or o1.raised or o2.raised:
        return
    ctx.cover("written")

    def lines_of(sink):
        """split the token stream into text lines; the TIMESTEP value line is replaced by a placeholder"""
        out, cur = [], []
        for k in sink.stream():
            if k[0] == "txt":
                parts = k[1].split("\n")
                for j, p in enumerate(parts):
                    if p:
                        cur.append(("txt", p))
                    if j < len(parts) - 1:
                        out.append(cur)
                        cur = []
            else:
                cur.append(k)
        if cur:
            out.append(cur)
        for i, ln in enumerate(out):
            if ln == [("txt", "ITEM: TIMESTEP")] and i + 1 < len(out):
                out[i + 1] = [("txt", "<timestep>")]
        return out
    a, b = lines_of(s1), lines_of(s2)
    ctx.ensure("one-call-with-two-frames==two-calls-with-one-frame-each(apart-from-the-TIMESTEP-numbers)", a == b)
    ctx.ensure("lines-per-frame=9+n_atoms", len(b) == F * (9 + A))
    if len(b) != F * (9 + A):
        return
    for f in range(F):
        fr = b[f * (9 + A):(f + 1) * (9 + A)]
        ctx.ensure(f"frame{f}:header-lines", fr[0] == [("txt", "ITEM: TIMESTEP")] and fr[2] == [("txt", "ITEM: NUMBER OF ATOMS")] and fr[3] == [("txt", str(A))]
                   and fr[4] == [("txt", "ITEM: BOX BOUNDS pp pp pp")] and fr[8] == [("txt", "ITEM: ATOMS id type xu yu zu")])
        for at in range(A):
            ln = fr[9 + at]
            nums = [k for k in ln if k[0] == "num"]
            ctx.ensure(f"frame{f}:atom-line{at}:id={at + 1},then-type,then-x-y-z(8.3f)-of-that-atom", len(nums) >= 3 and nums[-3:] == [num(X[f][at][k]) for k in range(3)]
                       and (ln[0] == ("txt", f"{at + 1} ") or (ln[0][0] == "txt" and ln[0][1].split()[:1] == [str(at + 1)])))


contract("C19", "mdtraj/formats/lammpstrj.py", "LAMMPSTrajectoryFile.write", replay="writer:text", covers=["written"], max_paths=200)(lammps_writer)
