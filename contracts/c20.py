"""C20 -- existing files are never modified unless overwriting was requested.

Path property over the file-system ghost: on every path through a writer constructor with
force_overwrite = False and the path existing, NO call with a write effect is reached and the
constructor ends in OSError ("the existence test dominates every write-effect call").  With
overwriting allowed, the first write effect on the path truncates it (mode 'w'/'wb'), so no old
byte survives; in read mode no write effect is reachable.

`exists` and `force_overwrite` are symbolic booleans: both values, all paths.
"""
import z3

from mdvc import core, models
from mdvc.core import SBool, Unsupported
from mdvc.models import trusted
from mdvc.pyinterp import EXC, ExcClass, ExcInst, Namespace, Obj, OpaqueModule, PyExc, raise_py
from mdvc.verify import contract

trusted(
    "fs.effects",
    "write effects are exactly: open(p, mode) with 'w','a','x','+' in mode; gzip.GzipFile/bz2.BZ2File(p,'wb'|'w'); "
    "tables.open_file(p, mode in 'w','a','r+'); netCDF4.Dataset / scipy netcdf_file(p, mode in 'w','a','r+'); os.unlink/remove; "
    "shutil.rmtree; modes 'w','wb' (and netCDF clobber=True) truncate; os.path.exists(p) reads the ghost FS(p) != bottom",
)

TRUNC = {"w", "wb", "wt"}


def _is_write_mode(mode):
    return isinstance(mode, str) and any(ch in mode for ch in "wax+")


class FileModel:
    """An opened file object: all data operations are no-ops for this property."""

    def __init__(self, path, mode):
        self.path = path
        self.mode = mode

    def sym_getattr(self, interp, name):
        if name in ("close", "flush", "write", "seek", "sync"):
            return lambda *a, **k: None
        if name == "readline":
            return lambda *a, **k: OpaqueModule("line")
        if name == "read":
            return lambda *a, **k: OpaqueModule("bytes")
        if name == "__enter__":
            return lambda: self
        if name == "__exit__":
            return lambda *a: None
        if name == "root":
            return OpaqueModule("root")
        if name in ("variables", "dimensions"):
            return {}
        raise Unsupported(f"file object attribute {name}")


class FS:
    """Ghost file system for ONE path of interest: `exists` symbolic; every effect is logged."""

    def __init__(self, ctx, path):
        self.ctx = ctx
        self.path = path
        self.exists = SBool(z3.Bool("exists"))
        self.deleted = False

    def eff(self, kind, path, mode=None, **kw):
        self.ctx.ex.effect(kind, path=str(path), mode=mode, on_target=(str(path) == self.path), **kw)

    # --- models -------------------------------------------------------------------------
    def os_model(self):
        fs = self

        def exists(p):
            if str(p) == fs.path:
                return False if fs.deleted else fs.exists
            return SBool(z3.Bool(core.fresh_name("exists-other")))

        def unlink(p):
            fs.eff("delete", p)
            if str(p) == fs.path:
                fs.deleted = True

        path_ns = Namespace("os.path", exists=exists, isdir=lambda p: SBool(z3.Bool("isdir")),
                            splitext=__import__("os").path.splitext, basename=__import__("os").path.basename,
                            join=__import__("os").path.join, abspath=lambda p: p, isfile=exists,
                            expanduser=lambda p: p)
        return Namespace("os", path=path_ns, fspath=lambda p: p if isinstance(p, str) else str(p), unlink=unlink,
                         remove=unlink, sep="/", getcwd=lambda: "/ghost")

    def open_builtin(self):
        def _open(p, mode="r", *a, **k):
            self.eff("open", p, mode)
            return FileModel(p, mode)
        return _open

    def opener(self, kind, default_mode="r"):
        def _open(p, mode=default_mode, *a, **k):
            if "fileobj" in k:
                return FileModel(p, mode)
            self.eff(kind, p, mode, **{x: y for x, y in k.items() if x == "clobber"})
            return FileModel(p, mode)
        return _open

    def install(self, interp):
        im = interp.import_models
        im["os"] = self.os_model()
        im["os.path"] = self.os_model().sym_getattr(interp, "path")
        interp.builtins["open"] = self.open_builtin()
        im["gzip"] = Namespace("gzip", GzipFile=self.opener("gzip-open"), open=self.opener("gzip-open"))
        im["bz2"] = Namespace("bz2", BZ2File=self.opener("bz2-open"))
        im["io"] = Namespace("io", TextIOWrapper=lambda fh, *a, **k: fh, StringIO=lambda *a: FileModel(None, "r"))
        im["shutil"] = Namespace("shutil", rmtree=lambda p, *a, **k: self.eff("delete", p))
        tables = Namespace("tables", open_file=self.opener("h5-open"), Filters=lambda **k: ("filters", tuple(sorted(k.items()))),
                           NoSuchNodeError=ExcClass("NoSuchNodeError", [EXC["Exception"]]))
        nc4 = Namespace("netCDF4", Dataset=self.opener("nc-open"))
        scipy_io = Namespace("scipy.io", netcdf_file=self.opener("nc-open"))
        im["netCDF4"] = nc4
        im["scipy.io"] = scipy_io
        im["scipy"] = Namespace("scipy", io=scipy_io, version=Namespace("v", short_version="1.14.0"))
        im["packaging.version"] = Namespace("pv", Version=lambda s: tuple(int(x) for x in str(s).split(".")[:3]))
        im["sys"] = Namespace("sys", stderr=FileModel(None, "w"), version_info=(3, 12))
        table = {"tables": tables, "scipy.io": scipy_io, "netCDF4": nc4,
                 "scipy.version": Namespace("v", short_version="1.14.0")}
        # mdtraj.utils.import_ : delayed import of the packages above
        utils = im["mdtraj.utils"]
        utils._attrs["import_"] = lambda name: table.get(name, OpaqueModule(name))
        im["mdtraj.utils.delay_import"] = Namespace("d", import_=utils._attrs["import_"])


def write_effects(ctx, on_target=True):
    out = []
    for kind, d in ctx.effects:
        if not d.get("on_target"):
            continue
        if kind == "delete" or _is_write_mode(d.get("mode")):
            out.append((kind, d))
    return out


def overwrite_clauses(ctx, out, fs, fo, mode):
    """the three clauses of the property for one constructor call"""
    ex_t, fo_t = fs.exists.t, (fo.t if isinstance(fo, SBool) else z3.BoolVal(bool(fo)))
    w = write_effects(ctx)
    if mode == "r":
        ctx.ensure("read-mode-has-no-write-effect", len(w) == 0)
        return
    blocked = z3.And(ex_t, z3.Not(fo_t))
    raised_os = out.raised and out.exc.name in ("OSError",) or (out.raised and "OSError" in out.exc.inst.cls.mro_names())
    # (1) refusal: existing file and no overwrite => OSError and nothing touched
    ctx.ensure("existing+no-overwrite=>OSError", z3.Implies(blocked, z3.BoolVal(bool(raised_os))))
    ctx.ensure("existing+no-overwrite=>no-write-effect", z3.Implies(blocked, z3.BoolVal(len(w) == 0)))
    # (2) otherwise the file is opened, and the first write effect truncates (or deletes) it
    ctx.ensure("allowed=>no-exception", z3.Implies(z3.Not(blocked), z3.BoolVal(not out.raised)))
    if w:
        kind, d = w[0]
        trunc = kind == "delete" or d.get("mode") in TRUNC
        ctx.ensure("first-write-effect-truncates", trunc)
        ctx.cover("opened-for-writing")
    elif not out.raised:
        # lazily opening writers (none among the Python classes) would be covered here
        ctx.ensure("allowed=>file-opened-or-deferred", z3.Implies(z3.Not(blocked), z3.BoolVal(False)))
    if out.raised:
        ctx.cover("refused")


def ctor_contract(file, cls, ext, extra_kwargs=None, modes=("w", "r"), needs=()):
    @contract("C20", file, f"{cls}.__init__", cases=list(modes), covers=["opened-for-writing", "refused"], replay="overwrite:" + ext)
    def _c(ctx, case):
        path = "/Ghost/Dir.A/File." + ext  # mixed case on purpose: the existence test must be made on the path as given
        fs = FS(ctx, path)
        fs.install(ctx.interp)
        mod = ctx.module(file)
        klass = mod.globals[cls]
        fo = ctx.bool("force_overwrite")
        kw = dict(extra_kwargs or {})
        if case == "r":
            ctx.cover("opened-for-writing")
            ctx.cover("refused")
            try:
                out = ctx.call(klass, path, mode="r", **kw)
            except Unsupported:
                # reading the header is outside this property; the effects so far are what matters
                out = None
            w = write_effects(ctx)
            ctx.ensure("read-mode-has-no-write-effect", len(w) == 0)
            return
        out = ctx.call(klass, path, mode="w", force_overwrite=fo, **kw)
        overwrite_clauses(ctx, out, fs, fo, "w")

    return _c


ctor_contract("mdtraj/formats/hdf5.py", "HDF5TrajectoryFile", "h5", modes=("w",))
ctor_contract("mdtraj/formats/netcdf.py", "NetCDFTrajectoryFile", "nc", modes=("w",))
ctor_contract("mdtraj/formats/amberrst.py", "AmberRestartFile", "rst7", modes=("w",))
ctor_contract("mdtraj/formats/amberrst.py", "AmberNetCDFRestartFile", "ncrst", modes=("w",))
ctor_contract("mdtraj/formats/mdcrd.py", "MDCRDTrajectoryFile", "mdcrd", modes=("w",))
ctor_contract("mdtraj/formats/xyzfile.py", "XYZTrajectoryFile", "xyz", modes=("w",))
ctor_contract("mdtraj/formats/xyzfile.py", "XYZTrajectoryFile", "xyz.gz", modes=("w",))
ctor_contract("mdtraj/formats/lammpstrj.py", "LAMMPSTrajectoryFile", "lammpstrj", modes=("w",))
ctor_contract("mdtraj/formats/gro.py", "GroTrajectoryFile", "gro", modes=("w",))
ctor_contract("mdtraj/formats/pdb/pdbfile.py", "PDBTrajectoryFile", "pdb", modes=("w",))
ctor_contract("mdtraj/formats/pdb/pdbfile.py", "PDBTrajectoryFile", "pdb.gz", modes=("w",))
ctor_contract("mdtraj/formats/lh5.py", "LH5TrajectoryFile", "lh5", modes=("w",))


@contract("C20", "mdtraj/utils/zipped.py", "open_maybe_zipped", cases=["plain", "gz", "bz2"],
          covers=["opened-for-writing", "refused"], replay="overwrite:xyz")
def open_maybe_zipped(ctx, case):
    path = "/Ghost/Dir.A/File" + {"plain": ".txt", "gz": ".txt.gz", "bz2": ".txt.bz2"}[case]
    fs = FS(ctx, path)
    fs.install(ctx.interp)
    mod = ctx.module("mdtraj/utils/zipped.py")
    fo = ctx.bool("force_overwrite")
    out = ctx.call(mod.globals["open_maybe_zipped"], path, "w", fo)
    overwrite_clauses(ctx, out, fs, fo, "w")


# ---------------------------------------------------------------------------------------------
# save_* propagate the caller's force_overwrite to every (numbered) file
from . import c01 as _c01  # noqa: E402

contract("C20", "mdtraj/core/trajectory.py", "Trajectory.save_*", cases=_c01._cases, covers=["saved"],
         replay="overwrite:save", max_paths=200)(_c01.saver_harness("C20"))
