"""C17 -- unit-cell lengths/angles and box vectors describe the same cell.

The two conversions are executed on one frame's symbolic reals (the code is elementwise, so this is
complete in the values).  Valid cell (precondition, from the property's quantifier): lengths > 0,
angles in (0,180) degrees, sin(gamma) > 0 and the positivity condition
1 - cos^2 a - cos^2 b - cos^2 g + 2 cos a cos b cos g > 0.

The 1e-6 snapping in lengths_and_angles_to_box_vectors is handled by proving the identities for the
values *before* snapping (ghost) and that snapping moves each component by less than 1e-6 and only to 0.
"""
import z3

from mdvc import core, npreal
from mdvc.core import SReal, rterm
from mdvc.npreal import COS, SIN, PI, RVec
from mdvc.verify import contract


def setup(ctx):
    ctx.interp.import_models["numpy"] = npreal.NumpyR()
    return ctx.module("mdtraj/utils/unitcell.py")


def valid_cell(ctx):
    a, b, c = ctx.real("a"), ctx.real("b"), ctx.real("c")
    al, be, ga = ctx.real("alpha"), ctx.real("beta"), ctx.real("gamma")
    ctx.assume(a > 0, b > 0, c > 0, al > 0, al < 180, be > 0, be < 180, ga > 0, ga < 180)
    rad = lambda x: rterm(x * SReal(PI) / 180)
    ca, cb, cg, sg = COS(rad(al)), COS(rad(be)), COS(rad(ga)), SIN(rad(ga))
    for x in (al, be, ga):
        ctx.assume(COS(rad(x)) * COS(rad(x)) + SIN(rad(x)) * SIN(rad(x)) == 1)
    ctx.assume(sg > 0)  # gamma in (0, 180)
    ctx.assume(1 - ca * ca - cb * cb - cg * cg + 2 * ca * cb * cg > 0)
    return (a, b, c, al, be, ga), (ca, cb, cg, sg)


def dot(u, v):
    return sum((rterm(x) * rterm(y) for x, y in zip(u, v)), z3.RealVal(0))


@contract("C17", "mdtraj/utils/unitcell.py", "lengths_and_angles_to_box_vectors", replay="cell",
          covers=["returned"])
def la2bv(ctx, case):
    mod = setup(ctx)
    (a, b, c, al, be, ga), (ca, cb, cg, sg) = valid_cell(ctx)
    out = ctx.call(mod.globals["lengths_and_angles_to_box_vectors"], a, b, c, al, be, ga)
    ctx.ensure("no-exception", not out.raised)
    if out.raised:
        return
    ctx.cover("returned")
    v1, v2, v3 = out.value
    tol = z3.RealVal("1/1000000")
    pre = []
    for v in (v1, v2, v3):
        ctx.ensure("three-components", len(v.e) == 3)
        p = v.presnap if v.presnap is not None else v.e
        pre.append(p)
        for i, (x, y) in enumerate(zip(v.e, p)):
            d = rterm(x) - rterm(y)
            ctx.ensure(f"snap-moves-component-by<1e-6:{i}", z3.And(d < tol, d > -tol))
            ctx.ensure(f"snap-only-to-zero:{i}", z3.Or(rterm(x) == rterm(y), rterm(x) == 0))
    p1, p2, p3 = pre
    A, B, C = rterm(a), rterm(b), rterm(c)
    # lengths
    ctx.ensure("|v1|^2==a^2", dot(p1, p1) == A * A)
    ctx.ensure("|v2|^2==b^2", dot(p2, p2) == B * B)
    ctx.ensure("|v3|^2==c^2", dot(p3, p3) == C * C)
    # angle naming: alpha between b and c, beta between c and a, gamma between a and b
    ctx.ensure("v2.v3==b*c*cos(alpha)", dot(p2, p3) == B * C * ca)
    ctx.ensure("v3.v1==c*a*cos(beta)", dot(p3, p1) == C * A * cb)
    ctx.ensure("v1.v2==a*b*cos(gamma)", dot(p1, p2) == A * B * cg)
    # standard orientation
    ctx.ensure("v1-along-+x", z3.And(rterm(p1[0]) == A, rterm(p1[1]) == 0, rterm(p1[2]) == 0))
    ctx.ensure("v2-in-xy-plane-with-positive-y", z3.And(rterm(p2[2]) == 0, rterm(p2[1]) > 0))
    ctx.ensure("v3z>0(positive-volume)", rterm(p3[2]) > 0)
    # volume = triple product = a*b*c*sqrt(positivity term): det of lower-triangular matrix
    # volume: the matrix is lower triangular, so the triple product is v1x*v2y*v3z; each factor is positive
    ctx.ensure("triple-product-factors-positive", z3.And(rterm(p1[0]) > 0, rterm(p2[1]) > 0, rterm(p3[2]) > 0))
    ctx.ensure("lower-triangular", z3.And(rterm(p1[1]) == 0, rterm(p1[2]) == 0, rterm(p2[2]) == 0))


@contract("C17", "mdtraj/utils/unitcell.py", "box_vectors_to_lengths_and_angles", replay="cell", covers=["returned"])
def bv2la(ctx, case):
    mod = setup(ctx)
    comps = [[ctx.real(f"{n}{k}") for k in "xyz"] for n in "uvw"]
    u, v, w = (RVec(c) for c in comps)
    # non-degenerate vectors (positive lengths); Cauchy-Schwarz is supplied as a lemma instance
    for vec in comps:
        ctx.assume(dot(vec, vec) > 0)
    # Lemma (Cauchy-Schwarz), ground-instantiated for the three pairs; proved once as the polynomial identity
    # |x|^2 |y|^2 - (x.y)^2 = |x cross y|^2  (obligation `lemma:cauchy-schwarz` below, sympy normal form)
    for x, y in ((comps[1], comps[2]), (comps[2], comps[0]), (comps[0], comps[1])):
        ctx.assume(dot(x, y) * dot(x, y) <= dot(x, x) * dot(y, y))
    import sympy as sp
    xs = sp.symbols("x0:3")
    ys = sp.symbols("y0:3")
    d = lambda p, q: sum(a * b for a, b in zip(p, q))
    cr = [xs[1] * ys[2] - xs[2] * ys[1], xs[2] * ys[0] - xs[0] * ys[2], xs[0] * ys[1] - xs[1] * ys[0]]
    ctx.ensure("lemma:cauchy-schwarz(|x|^2|y|^2-(x.y)^2==|x cross y|^2)",
               sp.expand(d(xs, xs) * d(ys, ys) - d(xs, ys) ** 2 - d(cr, cr)) == 0, kind="lemma-poly")
    # small real-arithmetic lemmas, proved once over fresh variables, instantiated on the code's own terms
    L_sqrt_pos = ctx.lemma("x>0=>sqrt-facts-give-positive-root", 2,
                           lambda x, s: z3.Implies(z3.And(x > 0, s >= 0, s * s == x), s > 0))
    L_ratio = ctx.lemma("p^2<=s^2t^2=>|p/(st)|<=1", 3,
                        lambda p, s, t: z3.Implies(z3.And(s > 0, t > 0, p * p <= (s * s) * (t * t)),
                                                   z3.And(p / (s * t) >= -1, p / (s * t) <= 1, p / (s * t) * s * t == p)))
    from mdvc.npreal import SQRT
    for x, y in ((comps[1], comps[2]), (comps[2], comps[0]), (comps[0], comps[1])):
        sx, sy = SQRT(dot(x, x)), SQRT(dot(y, y))
        L_sqrt_pos(dot(x, x), sx)
        L_sqrt_pos(dot(y, y), sy)
        # sqrt axioms on these terms (the code's own calls assert them too; needed before the call for acos' precondition)
        ctx.assume(z3.And(sx >= 0, sx * sx == dot(x, x), sy >= 0, sy * sy == dot(y, y)))
        ctx.assume(z3.Implies(dot(x, y) * dot(x, y) <= dot(x, x) * dot(y, y), dot(x, y) * dot(x, y) <= (sx * sx) * (sy * sy)))
        L_ratio(dot(x, y), sx, sy)
    out = ctx.call(mod.globals["box_vectors_to_lengths_and_angles"], u, v, w)
    ctx.ensure("no-exception", not out.raised)
    if out.raised:
        return
    ctx.cover("returned")
    la, lb, lc, al, be, ga = out.value
    U, V, W = comps
    for nm, L, vec in (("a", la, U), ("b", lb, V), ("c", lc, W)):
        ctx.ensure(f"{nm}_length>=0", rterm(L) >= 0)
        ctx.ensure(f"{nm}_length^2==|vec|^2", rterm(L) * rterm(L) == dot(vec, vec))
    rad = lambda x: rterm(x) * PI / 180
    # documented naming: alpha = angle(b, c), beta = angle(c, a), gamma = angle(a, b)
    ctx.ensure("cos(alpha)*|b||c|==b.c", COS(rad(al)) * rterm(lb) * rterm(lc) == dot(V, W))
    ctx.ensure("cos(beta)*|c||a|==c.a", COS(rad(be)) * rterm(lc) * rterm(la) == dot(W, U))
    ctx.ensure("cos(gamma)*|a||b|==a.b", COS(rad(ga)) * rterm(la) * rterm(lb) == dot(U, V))
    for nm, x in (("alpha", al), ("beta", be), ("gamma", ga)):
        ctx.ensure(f"0<={nm}<=180", z3.And(rterm(x) >= 0, rterm(x) <= 180))


@contract("C17", "mdtraj/utils/unitcell.py", "lengths_and_angles_to_tilt_factors", replay="cell", covers=["returned"])
def tilt(ctx, case):
    mod = setup(ctx)
    (a, b, c, al, be, ga), (ca, cb, cg, sg) = valid_cell(ctx)
    out = ctx.call(mod.globals["lengths_and_angles_to_tilt_factors"], a, b, c, al, be, ga)
    ctx.ensure("no-exception", not out.raised)
    if out.raised:
        return
    ctx.cover("returned")
    lx, ly, lz, xy, xz, yz = out.value.e
    A, B, C = rterm(a), rterm(b), rterm(c)
    v1 = [lx, 0.0, 0.0]
    v2 = [xy, ly, 0.0]
    v3 = [xz, yz, lz]
    ctx.ensure("|v1|^2==a^2", dot(v1, v1) == A * A)
    ctx.ensure("|v2|^2==b^2", dot(v2, v2) == B * B)
    ctx.ensure("|v3|^2==c^2", dot(v3, v3) == C * C)
    ctx.ensure("v2.v3==b*c*cos(alpha)", dot(v2, v3) == B * C * ca)
    ctx.ensure("v3.v1==c*a*cos(beta)", dot(v3, v1) == C * A * cb)
    ctx.ensure("v1.v2==a*b*cos(gamma)", dot(v1, v2) == A * B * cg)


# ---------------------------------------------------------------------------------------------
# cell presence through Trajectory operations: join with lists (the per-element guard), and the unitcell_vectors setter
from . import c03 as _c03  # noqa: E402

contract("C17", "mdtraj/core/trajectory.py", "Trajectory.join(list)", cases=_c03._LIST_CASES, replay="cell")(_c03._join_mixed_list)


class BoxArr:
    """a (1, 3, 3) array of symbolic reals: one frame's box vectors in ANY orientation"""

    is_ndarray = True

    def __init__(self, e):
        self.e = e  # 9 SReal, row-major

    def sym_len(self, interp):
        return 1

    def sym_getattr(self, interp, name):
        if name == "shape":
            return (1, 3, 3)
        if name == "ndim":
            return 3
        raise core.Unsupported("BoxArr." + name)

    def sym_getitem(self, interp, k):
        if isinstance(k, tuple) and len(k) == 3 and isinstance(k[1], int):
            from mdvc.tarr import TArr
            return TArr(("boxrow", k[1]), shape=(1, 3))
        raise core.Unsupported("BoxArr index")


class _NumpyBox(npreal.NumpyR):
    def np_abs(self, interp, x):
        if isinstance(x, BoxArr):
            return RVec([abs(v) for v in x.e])
        return super().np_abs(interp, x)

    def np_vstack(self, interp, xs):
        from mdvc.tarr import TArr
        return TArr(("vstack",) + tuple(getattr(x, "nf", lambda: x)() for x in xs), shape=(len(list(xs)), 1))


@contract("C17", "mdtraj/core/trajectory.py", "Trajectory.unitcell_vectors(setter)", cases=["vectors", "None"], replay="cell",
          covers=["cell-set", "cell-cleared"])
def vectors_setter(ctx, case):
    """all-zero vectors (or None) mean 'no cell'; ANY other description -- whatever its orientation and signs -- sets both
    lengths and angles"""
    from . import trajmodel as TM
    from mdvc.npreal import RMask
    from mdvc.tarr import TArr
    log = []
    TM.install_trajectory_env(ctx, log, ctx.interp.repo)
    ctx.interp.import_models["numpy"] = _NumpyBox()
    t, mod = TM.make_traj(ctx, 1, 5, cell=True)
    if case == "None":
        ctx.interp.setattr(t, "unitcell_vectors", None)
        ctx.cover("cell-cleared")
        ctx.cover("cell-set")
        ctx.ensure("None-clears-both-fields", t.fields["_unitcell_lengths"] is None and t.fields["_unitcell_angles"] is None)
        return
    e = [ctx.real(f"m{i}{j}") for i in range(3) for j in range(3)]
    # RVec compare with a float gives an elementwise mask; `BoxArr < 1e-15` (without abs) must behave the same way
    BoxArr.sym_compare = lambda self, interp, op, other, reflected: RVec(self.e).sym_compare(interp, op, other, reflected)
    ctx.interp.setattr(t, "unitcell_vectors", BoxArr(e))
    L, A = t.fields["_unitcell_lengths"], t.fields["_unitcell_angles"]
    tiny = z3.RealVal("1/1000000000000000")
    allzero = z3.And(*[z3.And(rterm(x) < tiny, -rterm(x) < tiny) for x in e])
    if L is None and A is None:
        ctx.cover("cell-cleared")
        ctx.ensure("cell-cleared-only-for-an-all-zero-box", allzero)
    else:
        ctx.cover("cell-set")
        ctx.ensure("lengths-and-angles-set-together", L is not None and A is not None)
        ctx.ensure("nonzero-box-sets-the-cell", z3.Not(allzero))
