"""C14 -- the Kabsch-Sander backbone hydrogen-bond kernel (mdtraj/geometry/src/geometry.cpp), executed from clang's AST.

  store_energies      the two slots of a donor hold the best two (lowest-energy) of {slot0, slot1, new}; pairs (energy, acceptor)
                      stay together; best first; an empty slot is NaN; only the donor's four cells are written.
                      By induction over the calls this is `keeps the best two per donor` for every sequence of candidates.
  ks_donor_acceptor   E = 2.7888 (1/r_NO + 1/r_HC - 1/r_HO - 1/r_NC) clamped at -9.9, N/H of the donor, C/O of the acceptor
  ks_assign_hydrogens H_0 = N_0;  H_r = N_r + 0.1 (C_{r-1} - O_{r-1}) / |C_{r-1} - O_{r-1}|  for every non-skipped r >= 1
                      (all residues: loop invariant on the bumped pointer)
  kabsch_sander       frame loop / donor loop / acceptor loop cut at invariants, callees replaced by the contracts above:
                      in frame i exactly the pairs (ri, rj), ri < rj, both complete, CA-CA^2 < 0.81 nm^2 are evaluated, on THAT
                      frame's coordinates and hydrogens; (ri -> rj) is offered to store_energies iff E < -0.5 and ri is not a
                      proline, (rj -> ri) iff rj != ri+1 and E' < -0.5 and rj is not a proline; outputs of frame i go to row i.
NaN is modelled by a distinguished token value of the cell (IEEE comparison semantics: see cinterp `nan_value`).
"""
import z3

from mdvc import core, npreal
from mdvc.cinterp import CLoopSpec, Ptr, Region
from mdvc.core import SInt, SReal, rterm, term
from mdvc.verify import contract

GEOM = dict(include=("mdtraj/geometry/include", "mdtraj/geometry/src/kernels", "mdtraj/geometry/src"))
FILE = "mdtraj/geometry/src/geometry.cpp"
NAN = z3.Real("NaN-token")


def float_literals(node):
    """values of the floating literals in a function's AST"""
    out = []
    if isinstance(node, dict):
        if node.get("kind") == "FloatingLiteral":
            out.append(float(node["value"]))
        for ch in node.get("inner", []) or []:
            out += float_literals(ch)
    return out


def F32(text):
    """value of a C float literal"""
    import struct

    return struct.unpack("f", struct.pack("f", float(text)))[0]


# ---------------------------------------------------------------------------------------------
def store_energies(ctx, case=None):
    ex = ctx.ex
    c = ctx.load_c(FILE, ["store_energies"], **GEOM)
    c.nan_value = NAN
    hb, he = Region("hbonds", "int"), Region("henergies")
    hb.mem0, he.mem0 = hb.mem, he.mem
    d, acc, e = ctx.int("donor"), ctx.int("acceptor"), ctx.real("e")
    e0, e1 = z3.Select(he.mem0, 2 * d.t), z3.Select(he.mem0, 2 * d.t + 1)
    a0, a1 = z3.Select(hb.mem0, 2 * d.t), z3.Select(hb.mem0, 2 * d.t + 1)
    v0, v1 = e0 != NAN, e1 != NAN
    # slot invariant on entry: filled from the front, best first; the candidate is a number
    ctx.assume(d >= 0, z3.Implies(v1, v0), z3.Implies(z3.And(v0, v1), e0 <= e1), e.t != NAN)
    out = ctx.ccall("store_energies", Ptr(hb, 0), Ptr(he, 0), d, acc, e)
    ctx.ensure("returns-normally", out.exc is None)
    n0, n1 = z3.Select(he.mem, 2 * d.t), z3.Select(he.mem, 2 * d.t + 1)
    b0, b1 = z3.Select(hb.mem, 2 * d.t), z3.Select(hb.mem, 2 * d.t + 1)
    w0, w1 = n0 != NAN, n1 != NAN
    ctx.ensure("frame:only-the-donor's-two-slots-written", z3.And(*[z3.Or(w[0] == 2 * d.t, w[0] == 2 * d.t + 1) for w in hb.writes + he.writes]))
    ctx.ensure("slot-invariant-kept:filled-from-the-front", z3.Implies(w1, w0))
    ctx.ensure("slot-invariant-kept:best-first", z3.Implies(z3.And(w0, w1), n0 <= n1))
    ctx.ensure("slot0-is-never-empty-afterwards", w0)
    old0, old1, new = (e0, a0, v0), (e1, a1, v1), (e.t, acc.t, z3.BoolVal(True))

    def is_pair(en, ac, valid, p):
        return z3.And(valid, p[2], en == p[0], ac == p[1])
    for name, (en, ac, valid) in (("slot0", (n0, b0, w0)), ("slot1", (n1, b1, w1))):
        ctx.ensure(f"{name}:(energy,acceptor)-is-one-of-the-three-candidate-pairs-or-empty",
                   z3.Or(z3.Not(valid), is_pair(en, ac, valid, old0), is_pair(en, ac, valid, old1), is_pair(en, ac, valid, new)))
    # how many candidates were there / are kept
    cnt_in = z3.If(v0, 1, 0) + z3.If(v1, 1, 0) + 1
    cnt_out = z3.If(w0, 1, 0) + z3.If(w1, 1, 0)
    ctx.ensure("keeps-min(2,number-of-candidates)-entries", cnt_out == z3.If(cnt_in >= 2, 2, cnt_in))
    # best two: every candidate energy is >= the second kept energy, unless it is the first kept one
    for name, (en, valid) in (("old-slot0", (e0, v0)), ("old-slot1", (e1, v1)), ("new", (e.t, z3.BoolVal(True)))):
        ctx.ensure(f"best-two:{name}-is-kept-or-not-better-than-both-kept", z3.Implies(valid, z3.And(en >= n0, z3.Implies(w1, z3.Or(en >= n1, en == n0)))))
    # the kept pair of energies is the pair of the two smallest (as a multiset): sum characterisation for three valid inputs
    ctx.ensure("best-two:multiset(three-candidates)", z3.Implies(z3.And(v0, v1), n0 + n1 == e0 + e1 + e.t - z3.If(z3.And(e.t >= e0, e.t >= e1), e.t, z3.If(e1 >= e0, e1, e0))))
    ctx.cover("finished")


contract("C14", FILE, "store_energies", lang="c", replay="kabsch_sander", covers=["finished"], max_paths=50)(store_energies)


# ---------------------------------------------------------------------------------------------
def _atoms(xyz, nco, base=0):
    X = lambda a, k: z3.Select(xyz.mem0, base + 3 * a + k)
    N = lambda r: z3.Select(nco.mem0, 3 * r)
    C = lambda r: z3.Select(nco.mem0, 3 * r + 1)
    O = lambda r: z3.Select(nco.mem0, 3 * r + 2)
    return X, N, C, O


def donor_acceptor(ctx, case=None):
    ex = ctx.ex
    c = ctx.load_c(FILE, ["ks_donor_acceptor"], **GEOM)
    xyz, hc, nco = Region("xyz"), Region("hcoords"), Region("nco_indices", "int")
    for r in (xyz, hc, nco):
        r.mem0 = r.mem
    d, a = ctx.int("donor"), ctx.int("acceptor")
    ctx.assume(d >= 0, a >= 0)
    X, N, C, O = _atoms(xyz, nco)
    H = lambda k: z3.Select(hc.mem0, 4 * d.t + k)

    def dist2(p, q):
        return sum((p(k) - q(k)) * (p(k) - q(k)) for k in range(3))
    pN, pC, pO = (lambda k: X(N(d.t), k)), (lambda k: X(C(a.t), k)), (lambda k: X(O(a.t), k))
    d2 = dict(HO=dist2(H, pO), NC=dist2(pN, pC), HC=dist2(H, pC), NO=dist2(pN, pO))
    # precondition: the four atoms are at distinct positions
    ctx.assume(*[v > 0 for v in d2.values()])
    out = ctx.ccall("ks_donor_acceptor", Ptr(xyz, 0), Ptr(hc, 0), Ptr(nco, 0), d, a)
    ctx.ensure("returns-normally", out.exc is None)
    E = rterm(out.value)
    r = {k: npreal.SQRT(v) for k, v in d2.items()}
    # the documented constants, as the literals of the function's own text (required to be 2.7888 and 9.9 to 1e-6)
    lits = float_literals(c.functions["ks_donor_acceptor"])
    qs, cl = [v for v in lits if abs(v - 2.7888) <= 1e-6], [v for v in lits if abs(v - 9.9) <= 1e-6]
    ctx.ensure("constants:coupling=2.7888(=332*0.42*0.2/10),clamp=9.9", z3.BoolVal(len(set(qs)) == 1 and len(set(cl)) == 1))
    if len(set(qs)) != 1 or len(set(cl)) != 1:
        return
    q, clamp = z3.RealVal(repr(qs[0])), -z3.RealVal(repr(cl[0]))
    inv = {k: z3.RealVal(1) / v for k, v in r.items()}
    raw = q * inv["NO"] + q * inv["HC"] - q * inv["HO"] - q * inv["NC"]
    ctx.ensure("E=max(-9.9,2.7888*(1/r_NO+1/r_HC-1/r_HO-1/r_NC))", E == z3.If(raw < clamp, clamp, raw))
    ctx.ensure("inputs-untouched", z3.BoolVal(not xyz.writes and not hc.writes and not nco.writes))
    ctx.cover("finished")


contract("C14", FILE, "ks_donor_acceptor", lang="c", replay="kabsch_sander", covers=["finished"], max_paths=50)(donor_acceptor)


# ---------------------------------------------------------------------------------------------
def assign_hydrogens(ctx, case=None):
    ex = ctx.ex
    c = ctx.load_c(FILE, ["ks_assign_hydrogens"], **GEOM)
    xyz, hc, nco, skip = Region("xyz"), Region("hcoords"), Region("nco_indices", "int"), Region("skip", "int")
    for r in (xyz, hc, nco, skip):
        r.mem0 = r.mem
    n = ctx.int("n_residues")
    ctx.assume(n >= 1)
    X, N, C, O = _atoms(xyz, nco)
    RI = ctx.int("RI")
    lits = [v for v in float_literals(c.functions["ks_assign_hydrogens"]) if abs(v - 0.1) <= 1e-6]
    ctx.ensure("constant:N-H-bond-length=0.1nm", z3.BoolVal(len(set(lits)) == 1))
    if len(set(lits)) != 1:
        return
    bond = z3.RealVal(repr(lits[0]))

    def co2(r):
        return sum((X(C(r), k) - X(O(r), k)) * (X(C(r), k) - X(O(r), k)) for k in range(3))

    def havoc(interp, env, gh):
        interp.setvar(env, "ri", RI)
        interp.setvar(env, "hcoords", Ptr(hc, SInt(4 * RI.t)))
        hc.writes.clear()
        g_first.setdefault("writes", None)
        # precondition instance: the carbonyl of the previous residue has non-zero length
        return [RI.t >= 1, co2(RI.t - 1) > 0]

    def inv(interp, env, gh):
        ri = term(interp.getvar(env, "ri"))
        p = interp.getvar(env, "hcoords")
        if gh.get("entry"):
            g_first["writes"] = list(hc.writes)
        return [("1<=ri<=max(1,n_residues)", z3.And(ri >= 1, z3.Or(ri <= term(n), ri == 1))),
                ("hcoords-pointer=base+4*ri", z3.And(z3.BoolVal(isinstance(p, Ptr) and p.region is hc), term(p.off) == 4 * ri))]

    def at_end(interp, env, gh):
        ctx.cover("residue-iteration")
        sk = z3.Select(skip.mem0, RI.t) != 0
        w = hc.writes
        ex.require("skipped-residue:nothing-written", z3.Or(z3.Not(sk), z3.BoolVal(not w)))
        ex.require("complete-residue:four-cells-written", z3.Or(sk, z3.BoolVal(len(w) == 4)))
        if len(w) == 4:
            ctx.cover("hydrogen-placed")
            D = npreal.SQRT(co2(RI.t - 1))
            for k in range(4):
                ex.require(f"H-cell[{k}]-is-4*ri+{k}", w[k][0] == 4 * RI.t + k)
            for k in range(3):
                ex.require(f"H[{k}]=N[{k}]+0.1*(C_prev-O_prev)[{k}]/|C_prev-O_prev|",
                           w[k][1] == X(N(RI.t), k) + ((X(C(RI.t - 1), k) - X(O(RI.t - 1), k)) / D) * bond)
        for r in (xyz, nco, skip):
            ex.require(f"frame:{r.name}-not-written", z3.BoolVal(not r.writes))

    g_first = {}
    c.loop_specs[("ks_assign_hydrogens", 0)] = CLoopSpec(havoc, inv, at_end=at_end, exit_state=lambda interp, env, gh: None)
    out = ctx.ccall("ks_assign_hydrogens", Ptr(xyz, 0), Ptr(nco, 0), n, Ptr(hc, 0), Ptr(skip, 0))
    ctx.ensure("returns-normally", out.exc is None)
    fw = g_first.get("writes")
    ctx.ensure("residue0:H=N(four-cells-at-0..3)", z3.BoolVal(fw is not None and len(fw) == 4) if fw is None or len(fw) != 4 else
               z3.And(*[fw[k][0] == k for k in range(4)], *[fw[k][1] == X(N(0), k) for k in range(3)]))
    ctx.cover("finished")


contract("C14", FILE, "ks_assign_hydrogens", lang="c", replay="kabsch_sander", covers=["residue-iteration", "hydrogen-placed", "finished"], max_paths=50)(assign_hydrogens)


# ---------------------------------------------------------------------------------------------
KSE = z3.Function("KSE", z3.IntSort(), z3.IntSort(), z3.IntSort(), z3.RealSort())  # ks_donor_acceptor's value for (frame, donor, acceptor)


def kabsch_sander(ctx, case=None):
    ex = ctx.ex
    c = ctx.load_c(FILE, ["kabsch_sander"], **GEOM)
    R = dict(xyz=Region("xyz"), nco=Region("nco_indices", "int"), ca=Region("ca_indices", "int"), pro=Region("is_proline", "int"),
             hb=Region("hbonds", "int"), he=Region("henergies"))
    for r in R.values():
        r.mem0 = r.mem
    nf, na, nr = ctx.int("n_frames"), ctx.int("n_atoms"), ctx.int("n_residues")
    ctx.assume(nf >= 0, na >= 1, nr >= 1)
    I, RI, RJ, RS, S0 = ctx.int("I"), ctx.int("RI"), ctx.int("RJ"), ctx.int("RS"), ctx.int("S0")
    naT, nrT = term(na), term(nr)
    lits = float_literals(c.functions["kabsch_sander"])
    cut = [v for v in lits if abs(v + 0.5) <= 1e-6 or abs(v - 0.5) <= 1e-6]
    cad = [v for v in lits if abs(v - 0.81) <= 1e-6]
    ctx.ensure("constants:energy-cutoff=-0.5kcal/mol,CA-prefilter=(0.9nm)^2", z3.BoolVal(len(set(cut)) == 1 and len(set(cad)) == 1))
    if len(set(cut)) != 1 or len(set(cad)) != 1:
        return
    ECUT, CA2 = -z3.RealVal(repr(abs(cut[0]))), z3.RealVal(repr(cad[0]))
    g = {"events": []}

    def incomplete(r):
        sel = lambda t: z3.Select(R["nco"].mem0, t)
        return z3.Or(sel(3 * r) == -1, sel(3 * r + 1) == -1, sel(3 * r + 2) == -1, z3.Select(R["ca"].mem0, r) == -1)

    def skip_fact(r, i, mem):
        return z3.And(z3.Implies(z3.And(r >= 0, r < i), (z3.Select(mem, r) != 0) == incomplete(r)), z3.Implies(r >= i, z3.Select(mem, r) == 0))

    def frame_ptrs(interp, env, i):
        interp.setvar(env, "xyz", Ptr(R["xyz"], SInt(z3.simplify(3 * naT * term(i)))))
        interp.setvar(env, "hbonds", Ptr(R["hb"], SInt(z3.simplify(2 * nrT * term(i)))))
        interp.setvar(env, "henergies", Ptr(R["he"], SInt(z3.simplify(2 * nrT * term(i)))))

    def ptr_inv(interp, env, i):
        out = []
        for nm, reg, off in (("xyz", R["xyz"], 3 * naT * i), ("hbonds", R["hb"], 2 * nrT * i), ("henergies", R["he"], 2 * nrT * i)):
            p = interp.getvar(env, nm)
            out.append((f"{nm}-pointer-is-at-frame-i", z3.And(z3.BoolVal(isinstance(p, Ptr) and p.region is reg), term(p.off) == off) if isinstance(p, Ptr) and p.region is reg else z3.BoolVal(False)))
        return out

    # ---- loop 0: which residues are incomplete ------------------------------------------------------
    def l0_havoc(interp, env, gh):
        interp.setvar(env, "i", S0)
        sk = interp.getvar(env, "skip").region
        sk.mem = z3.Array(core.fresh_name("skip@i"), z3.IntSort(), z3.IntSort())
        return [S0.t >= 0]

    def l0_inv(interp, env, gh):
        i = term(interp.getvar(env, "i"))
        sk = interp.getvar(env, "skip").region
        return [("0<=i<=n_residues", z3.And(i >= 0, i <= nrT)), ("skip[r]!=0<=>residue-r-lacks-N,C,O-or-CA(r<i);0-beyond[probe-residue]", skip_fact(RS.t, i, sk.mem))]

    def l0_exit(interp, env, gh):
        interp.setvar(env, "i", SInt(nrT))
        mem = interp.getvar(env, "skip").region.mem
        g["skipmem"] = mem
        g["skip"] = lambda r: (z3.Select(mem, term(r)) != 0) == incomplete(term(r))

    c.loop_specs[("kabsch_sander", 0)] = CLoopSpec(l0_havoc, l0_inv, exit_state=l0_exit)

    # ---- callee contracts -------------------------------------------------------------------------
    def assign_model(interp, args):
        xyz, nco, n, hc, sk = args
        i = term(g["frame"])
        ex.require("ks_assign_hydrogens:gets-this-frame's-coordinates", z3.And(z3.BoolVal(xyz.region is R["xyz"]), term(xyz.off) == 3 * naT * i))
        ex.require("ks_assign_hydrogens:gets-nco,n_residues,hcoords[0],skip[0]", z3.And(
            z3.BoolVal(nco.region is R["nco"] and hc.region is g["hc_region"] and sk.region is g["skip_region"]), term(nco.off) == 0, term(n) == nrT, term(hc.off) == 0, term(sk.off) == 0))
        hc.region.mem = z3.Array(core.fresh_name("hcoords@frame"), z3.IntSort(), z3.RealSort())
        g["hydrogens_assigned"] = g.get("hydrogens_assigned", 0) + 1
        return None

    def da_model(interp, args):
        xyz, hc, nco, d, a = args
        g["events"].append(("energy", xyz, hc, nco, d, a))
        return SReal(KSE(term(g["frame"]), term(d), term(a)))

    def store_model(interp, args):
        hb, he, d, a, e = args
        g["events"].append(("store", hb, he, d, a, e))
        return None

    c.call_models["ks_assign_hydrogens"] = assign_model
    c.call_models["ks_donor_acceptor"] = da_model
    c.call_models["store_energies"] = store_model

    # ---- loop 1: frames ---------------------------------------------------------------------------
    def l1_havoc(interp, env, gh):
        interp.setvar(env, "i", I)
        frame_ptrs(interp, env, I)
        g["frame"] = I
        g["hc_region"] = interp.getvar(env, "hcoords").region
        g["skip_region"] = interp.getvar(env, "skip").region
        g["hc_region"].mem = z3.Array(core.fresh_name("hcoords@old"), z3.IntSort(), z3.RealSort())  # whatever the previous frame left
        g["hydrogens_assigned"] = 0
        return [I.t >= 0]

    def l1_inv(interp, env, gh):
        i = term(interp.getvar(env, "i"))
        g.setdefault("frame", interp.getvar(env, "i"))
        g.setdefault("hc_region", interp.getvar(env, "hcoords").region)
        g.setdefault("skip_region", interp.getvar(env, "skip").region)
        return [("0<=i<=n_frames", z3.And(i >= 0, i <= term(nf)))] + ptr_inv(interp, env, i)

    def l1_end(interp, env, gh):
        ctx.cover("frame-iteration")
        ex.require("hydrogens-assigned-once-per-frame-before-the-pair-loops", z3.BoolVal(g.get("hydrogens_assigned") == 1))
        for nm in ("xyz", "nco", "ca", "pro"):
            ex.require(f"frame:{nm}-not-written", z3.BoolVal(not R[nm].writes))

    c.loop_specs[("kabsch_sander", 1)] = CLoopSpec(l1_havoc, l1_inv, at_end=l1_end, exit_state=lambda interp, env, gh: (interp.setvar(env, "i", SInt(term(nf))), frame_ptrs(interp, env, SInt(term(nf)))))

    # ---- loop 2: donors/first residue of the pair -------------------------------------------------------
    def l2_havoc(interp, env, gh):
        interp.setvar(env, "ri", RI)
        return [RI.t >= 0, z3.Implies(RI.t < nrT, g["skip"](RI))]

    def l2_inv(interp, env, gh):
        ri = term(interp.getvar(env, "ri"))
        return [("0<=ri<=n_residues", z3.And(ri >= 0, ri <= nrT))] + ptr_inv(interp, env, I.t)

    c.loop_specs[("kabsch_sander", 2)] = CLoopSpec(l2_havoc, l2_inv, exit_state=lambda interp, env, gh: interp.setvar(env, "ri", SInt(nrT)))

    # ---- loop 3: second residue of the pair ---------------------------------------------------------------
    def l3_havoc(interp, env, gh):
        interp.setvar(env, "rj", RJ)
        g["events"] = []
        return [RJ.t >= RI.t + 1, z3.Implies(RJ.t < nrT, g["skip"](RJ))]

    def l3_inv(interp, env, gh):
        rj = term(interp.getvar(env, "rj"))
        return [("ri<rj<=n_residues", z3.And(rj >= RI.t + 1, z3.Or(rj <= nrT, rj == RI.t + 1)))] + ptr_inv(interp, env, I.t)

    def X(a, k):
        return z3.Select(R["xyz"].mem0, 3 * naT * I.t + 3 * a + k)

    def l3_end(interp, env, gh):
        ctx.cover("pair-iteration")
        ev = g["events"]
        CA = lambda r: z3.Select(R["ca"].mem0, r)
        d2 = sum((X(CA(RI.t), k) - X(CA(RJ.t), k)) * (X(CA(RI.t), k) - X(CA(RJ.t), k)) for k in range(3))
        close = d2 < CA2
        both = z3.And(z3.Not(incomplete(RI.t)), z3.Not(incomplete(RJ.t)))
        pro = lambda r: z3.Select(R["pro"].mem0, r) != 0
        en = [e for e in ev if e[0] == "energy"]
        st = [e for e in ev if e[0] == "store"]
        ex.require("pair-evaluated<=>both-residues-complete-and-CA-CA^2<0.81(this-frame's-coordinates)", z3.BoolVal(len(en) >= 1) == z3.And(both, close))
        ok_ptr = lambda p, reg, off: z3.And(z3.BoolVal(isinstance(p, Ptr) and p.region is reg), term(p.off) == off)
        for e in en:
            ex.require("energy:computed-on-this-frame's-coordinates-and-hydrogens", z3.And(ok_ptr(e[1], R["xyz"], 3 * naT * I.t), ok_ptr(e[2], g["hc_region"], 0), ok_ptr(e[3], R["nco"], 0)))
        for e in st:
            ex.require("store:into-this-frame's-rows", z3.And(ok_ptr(e[1], R["hb"], 2 * nrT * I.t), ok_ptr(e[2], R["he"], 2 * nrT * I.t)))
        if en:
            ctx.cover("pair-evaluated")
            fwd = [e for e in en if e[4] is RI or z3.eq(term(e[4]), RI.t)]
            ex.require("first-energy-is-(donor=ri,acceptor=rj)", z3.And(term(en[0][4]) == RI.t, term(en[0][5]) == RJ.t))
            adjacent = RJ.t == RI.t + 1
            ex.require("reverse-direction-evaluated<=>rj!=ri+1", z3.BoolVal(len(en) == 2) == z3.Not(adjacent))
            if len(en) == 2:
                ex.require("second-energy-is-(donor=rj,acceptor=ri)", z3.And(term(en[1][4]) == RJ.t, term(en[1][5]) == RI.t))
            e_f = KSE(I.t, RI.t, RJ.t)
            e_r = KSE(I.t, RJ.t, RI.t)
            st_f = [e for e in st if z3.is_true(z3.simplify(z3.And(term(e[3]) == RI.t, term(e[4]) == RJ.t)))]
            st_r = [e for e in st if z3.is_true(z3.simplify(z3.And(term(e[3]) == RJ.t, term(e[4]) == RI.t)))]
            ex.require("every-store-is-one-of-the-two-directions-of-this-pair", z3.BoolVal(len(st_f) + len(st_r) == len(st) and len(st_f) <= 1 and len(st_r) <= 1))
            ex.require("(ri->rj)-offered<=>E<-0.5-and-ri-not-proline", z3.BoolVal(len(st_f) == 1) == z3.And(e_f < ECUT, z3.Not(pro(RI.t))))
            ex.require("(rj->ri)-offered<=>rj!=ri+1-and-E<-0.5-and-rj-not-proline", z3.BoolVal(len(st_r) == 1) == z3.And(z3.Not(adjacent), e_r < ECUT, z3.Not(pro(RJ.t))))
            for e in st_f:
                ex.require("(ri->rj)-offered-with-its-energy", rterm(e[5]) == e_f)
            for e in st_r:
                ex.require("(rj->ri)-offered-with-its-energy", rterm(e[5]) == e_r)
        else:
            ex.require("no-store-without-evaluation", z3.BoolVal(not st))

    c.loop_specs[("kabsch_sander", 3)] = CLoopSpec(l3_havoc, l3_inv, at_end=l3_end, exit_state=lambda interp, env, gh: interp.setvar(env, "rj", SInt(nrT)))

    out = ctx.ccall("kabsch_sander", Ptr(R["xyz"], 0), Ptr(R["nco"], 0), Ptr(R["ca"], 0), Ptr(R["pro"], 0), nf, na, nr, Ptr(R["hb"], 0), Ptr(R["he"], 0))
    ctx.ensure("returns-normally", out.exc is None)
    ctx.cover("finished")


contract("C14", FILE, "kabsch_sander", lang="c", replay="kabsch_sander", covers=["frame-iteration", "pair-iteration", "pair-evaluated", "finished"], max_paths=300)(kabsch_sander)
