"""C01 -- the unit-cell lines of a LAMMPS dump: LAMMPSTrajectoryFile.write_box against the LAMMPS convention, and back through the real reader.

write_box is executed on symbolic cell lengths, angles and lower corner (one frame); every `self._fh.write(f"...")` is recorded as a line of
tokens (literal text and symbolic reals; text <-> float64 conversion through repr is taken as exact -- the only codec assumption).

  encoder clauses (LAMMPS documentation, "Triclinic (non-orthogonal) simulation boxes"):
        orthogonal cell   header `ITEM: BOX BOUNDS pp pp pp`, lines  lo_k  lo_k + length_k;
        general cell      header `ITEM: BOX BOUNDS xy xz yz pp pp pp`, tilt factors xy = b cos(gamma), xz = c cos(beta),
                          yz = (b c cos(alpha) - xy xz)/ly,  lx = a, ly = sqrt(b^2 - xy^2), lz = sqrt(c^2 - xz^2 - yz^2),
                          lines  xlo + min(0,xy,xz,xy+xz)  xhi + max(0,xy,xz,xy+xz)  xy ;  ylo + min(0,yz)  yhi + max(0,yz)  xz ;  zlo  zhi  yz;
  decoder round trip: the real `_read` run on a dump frame made of those lines (zero atoms, so only the header is parsed) returns the
        lengths and angles that were written (uses sqrt(x)^2 = x, cos(acos t) = t and injectivity of cos on [0, pi] as libm facts).
"""
import numpy as _np
import z3

from mdvc import core, npreal
from mdvc.core import SBool, SReal, rterm
from mdvc.pyinterp import Namespace, Obj
from mdvc.verify import contract

from . import c03

FILE = "mdtraj/formats/lammpstrj.py"


class SymLine:
    def __init__(self, parts):
        self.parts = parts

    def split(self):
        out = []
        for p in self.parts:
            if isinstance(p, str):
                out += p.split()
            else:
                out.append(p)  # repr(float) parses back to the same float
        return out

    def __eq__(self, o):
        return False

    __hash__ = object.__hash__


class TextFH:
    def __init__(self):
        self.lines, self.rp = [], 0

    def write(self, s):
        self.lines.append(s)

    def readline(self):
        if self.rp >= len(self.lines):
            return ""
        self.rp += 1
        return self.lines[self.rp - 1]


def np_model(ctx):
    def el(f):
        def g(x, *a, **k):
            if isinstance(x, (list, tuple, _np.ndarray)):
                return [g(v) for v in x]
            return f(x)
        return g

    def red(f):
        def g(x, *a, **k):
            vals = list(x.reshape(-1)) if isinstance(x, _np.ndarray) else list(x)
            r = vals[0]
            for v in vals[1:]:
                r = f(r, v)
            return r
        return g

    def allclose(a, b, rtol=1e-05, atol=1e-08):
        cs = []
        for x, y in zip(list(a), list(b)):
            if core.is_sym(x) or core.is_sym(y):
                tol = z3.RealVal(repr(atol)) + z3.RealVal(repr(rtol)) * abs(float(y))
                cs.append(z3.And(rterm(x) - rterm(y) <= tol, rterm(y) - rterm(x) <= tol))
            elif abs(x - y) > atol + rtol * abs(y):
                return False
        return SBool(z3.And(*cs)) if cs else True

    def empty(shape=None, dtype=None, **k):
        return _np.empty(shape, dtype=object)
    return Namespace("numpy", allclose=allclose, array=lambda x, **k: (_np.array(list(x), dtype=object) if not isinstance(x, _np.ndarray) else x), empty=empty,
                     radians=el(lambda v: v * SReal(npreal.PI) / 180), degrees=el(lambda v: v * 180 / SReal(npreal.PI)),
                     cos=el(npreal.r_cos), sqrt=el(lambda v: npreal.r_sqrt(v) if core.is_sym(v) else float(v) ** 0.5), arccos=el(npreal.r_acos),
                     min=red(core.smin), max=red(core.smax), diff=_np.diff, float32="float32", float64="float64", asarray=lambda x, **k: x)


def box_lines(ctx, case):
    ex = ctx.ex
    c03.install(ctx)
    im = ctx.interp.import_models
    im["numpy"] = np_model(ctx)
    im["itertools"] = Namespace("itertools", count=lambda *a: None)
    mod = ctx.module(FILE)
    cls = mod.globals["LAMMPSTrajectoryFile"]
    ctx.interp.fstring_hook = lambda e, parts: SymLine(parts)
    fh = TextFH()
    h = Obj(cls)
    h.fields.update(_mode="w", _is_open=True, _fh=fh, _filename="/data/f.lammpstrj", _frame_index=0, _line_counter=0)
    a, b, c = (ctx.real(n) for n in "abc")
    lo = [ctx.real(n) for n in ("xlo", "ylo", "zlo")]
    ctx.assume(a > 0, b > 0, c > 0)
    if case == "orthogonal":
        angles = [90.0, 90.0, 90.0]
    else:
        angles = [ctx.real(n) for n in ("alpha", "beta", "gamma")]
        ctx.assume(*[z3.And(x.t > 0, x.t < 180) for x in angles])
        # a VALID cell: the three angles span a positive volume, 1 - cos^2(alpha) - cos^2(beta) - cos^2(gamma) + 2 cos(alpha) cos(beta) cos(gamma) > 0,
        # and sin(gamma) != 0 for 0 < gamma < 180 (trigonometric fact, stated on the cosine)
        _ca, _cb, _cg = (npreal.COS(x.t * npreal.PI / 180) for x in angles)
        ctx.assume(1 - _cg * _cg > 0, 1 - _ca * _ca - _cb * _cb - _cg * _cg + 2 * _ca * _cb * _cg > 0)
    out = ctx.call_method(h, "write_box", _np.array([a, b, c], dtype=object), _np.array(angles, dtype=object), _np.array(lo, dtype=object))
    ctx.ensure("write_box:no-exception", not out.raised)
    if out.raised:
        return
    L = fh.lines
    tri = len(L) == 4 and isinstance(L[0], str) and L[0].split() == "ITEM: BOX BOUNDS xy xz yz pp pp pp".split()
    orth = len(L) == 4 and isinstance(L[0], str) and L[0].split() == "ITEM: BOX BOUNDS pp pp pp".split()
    ctx.ensure("write_box:header-line-then-three-bound-lines", tri or orth)
    if not (tri or orth):
        return
    rows = [l.split() if isinstance(l, SymLine) else l.split() for l in L[1:]]
    T = lambda v: rterm(v) if core.is_sym(v) else z3.RealVal(repr(float(v)))
    if case == "orthogonal":
        ctx.cover("orthogonal")
        ctx.ensure("orthogonal-cell->orthogonal-header", orth)
        if orth:
            ctx.ensure("orthogonal:lines=lo,lo+length", all(len(r) == 2 for r in rows) and z3.And(*[z3.And(T(rows[k][0]) == lo[k].t, T(rows[k][1]) == lo[k].t + [a, b, c][k].t) for k in range(3)]))
    else:
        if orth:
            # np.allclose(angles, 90): the cell is written as orthogonal when all angles are within 1e-5 relative of 90 degrees
            ctx.cover("near-orthogonal")
            tol = z3.RealVal("1e-8") + z3.RealVal("1e-5") * 90
            ctx.ensure("orthogonal-header-only-for-angles-within-the-documented-tolerance-of-90", z3.And(*[z3.And(x.t - 90 <= tol, 90 - x.t <= tol) for x in angles]))
            return
        ctx.cover("triclinic")
        PI = npreal.PI
        ca, cb, cg = (npreal.COS(x.t * PI / 180) for x in angles)
        xy, xz = b.t * cg, c.t * cb
        ok = all(len(r) == 3 for r in rows)
        ctx.ensure("triclinic:three-numbers-per-line", ok)
        if not ok:
            return
        w_xy, w_xz, w_yz = T(rows[0][2]), T(rows[1][2]), T(rows[2][2])
        ctx.ensure("triclinic:tilt-factor-xy=b*cos(gamma)", w_xy == xy)
        ctx.ensure("triclinic:tilt-factor-xz=c*cos(beta)", w_xz == xz)
        ly2 = b.t * b.t - xy * xy
        ctx.ensure("triclinic:tilt-factor-yz:yz*ly=b*c*cos(alpha)-xy*xz,ly=sqrt(b^2-xy^2)", z3.Exists([], z3.BoolVal(True)) if False else z3.And(w_yz * npreal.SQRT(ly2) == b.t * c.t * ca - xy * xz))
        ctx.assume(w_yz * npreal.SQRT(ly2) == b.t * c.t * ca - xy * xz, w_xy == xy, w_xz == xz)  # proved just above: kept as facts for the later steps
        mn = lambda *v: core.term(_red(core.smin, v))
        mx = lambda *v: core.term(_red(core.smax, v))
        Sx = [SReal(z3.RealVal(0)), SReal(w_xy), SReal(w_xz), SReal(w_xy + w_xz)]
        Sy = [SReal(z3.RealVal(0)), SReal(w_yz)]
        ctx.ensure("triclinic:xlo_bound=xlo+min(0,xy,xz,xy+xz)", T(rows[0][0]) == lo[0].t + mn(*Sx))
        ctx.ensure("triclinic:xhi_bound=xlo+lx+max(0,xy,xz,xy+xz),lx=a", T(rows[0][1]) == lo[0].t + a.t + mx(*Sx))
        ctx.ensure("triclinic:ylo_bound=ylo+min(0,yz)", T(rows[1][0]) == lo[1].t + mn(*Sy))
        ctx.ensure("triclinic:yhi_bound=ylo+ly+max(0,yz),ly=sqrt(b^2-xy^2)", T(rows[1][1]) == lo[1].t + npreal.SQRT(ly2) + mx(*Sy))
        lz2 = c.t * c.t - w_xz * w_xz - w_yz * w_yz
        ctx.ensure("triclinic:zlo_bound=zlo,zhi_bound=zlo+lz,lz=sqrt(c^2-xz^2-yz^2)", z3.And(T(rows[2][0]) == lo[2].t, T(rows[2][1]) == lo[2].t + npreal.SQRT(z3.simplify(lz2))))
    # ---- back through the real reader: a dump frame with these box lines and zero atoms
    rd = TextFH()
    rd.lines = ["ITEM: TIMESTEP\n", "0\n", "ITEM: NUMBER OF ATOMS\n", "0\n"] + L + ["ITEM: ATOMS id type xu yu zu\n"]
    h2 = Obj(cls)
    h2.fields.update(_mode="r", _is_open=True, _fh=rd, _filename="/data/f.lammpstrj", _frame_index=0, _line_counter=0)
    r = ctx.call_method(h2, "_read")
    ctx.ensure("read-back:no-exception", not r.raised)
    if r.raised:
        return
    xyz, lengths, angs = r.value
    ctx.cover("read-back")
    lens = [rterm(v) if core.is_sym(v) else z3.RealVal(repr(float(v))) for v in list(lengths)]
    ctx.ensure("read-back:lengths-are-the-written-lengths", len(lens) == 3 and z3.And(lens[0] == a.t, lens[1] == b.t, lens[2] == c.t))
    ctx.assume(z3.And(lens[0] == a.t, lens[1] == b.t, lens[2] == c.t))  # proved just above
    got = [rterm(v) if core.is_sym(v) else z3.RealVal(repr(float(v))) for v in list(angs)]
    if case == "orthogonal":
        ctx.ensure("read-back:angles-are-90", len(got) == 3 and z3.And(*[g == 90 for g in got]))
    else:
        PI = npreal.PI
        for g, x in zip(got, angles):
            u, w = g * PI / 180, x.t * PI / 180
            ctx.assume(z3.Implies(z3.And(u >= 0, u <= PI, w >= 0, w <= PI, npreal.COS(u) == npreal.COS(w)), u == w))
        for name, g, x in zip(("alpha", "beta", "gamma"), got, angles):
            ctx.ensure(f"read-back:{name}-is-the-written-angle", g == x.t)


def _red(f, vals):
    r = vals[0]
    for v in vals[1:]:
        r = f(r, v)
    return r


contract("C01", FILE, "LAMMPSTrajectoryFile.write_box;_read(box-lines)", cases=["orthogonal", "general"], replay="codec:lammpstrj-box", covers=["read-back"], max_paths=400)(box_lines)
