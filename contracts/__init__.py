"""Sidecar contracts for the real mdtraj functions, one module per property."""
