"""C01 (reader side) / C02 -- `read_as_traj` of the pure-Python file classes: what reaches the Trajectory.

`self.read(...)` is replaced by its contract (frame arrays in the file's NATIVE unit, lengths F symbolic); the real
`read_as_traj`, `in_units_of` call sites and the real `Trajectory.__init__` / setters are executed:

   read is called once, with the caller's n_frames / stride / atom_indices (partial loading is delegated, not re-done);
   coordinates and cell lengths are converted native -> nm exactly once, angles and stored times are passed through;
   the topology is the file's (or the caller's), restricted to atom_indices iff atom_indices is given, and is the one
   attached to the returned trajectory.
Together with the saver contracts of C01 (nm -> native, once) the conversion factors cancel: save-then-load returns the
stored values up to what the codec does (bounded check).
"""
import z3

from mdvc import core
from mdvc.core import Unsupported
from mdvc.pyinterp import Namespace, Obj, PyExc
from mdvc.tarr import TArr
from mdvc.verify import contract

from . import c03
from . import trajmodel as TM

# class file, class name, topology source, what read returns, which results carry stored times
READERS = {
    "hdf5": ("mdtraj/formats/hdf5.py", "HDF5TrajectoryFile", "own", "frames", True),
    "netcdf": ("mdtraj/formats/netcdf.py", "NetCDFTrajectoryFile", "arg", ("xyz", "time", "lengths", "angles"), True),
    "mdcrd": ("mdtraj/formats/mdcrd.py", "MDCRDTrajectoryFile", "arg", ("xyz", "lengths"), False),
    "xyz": ("mdtraj/formats/xyzfile.py", "XYZTrajectoryFile", "arg", ("xyz",), False),
    "lammpstrj": ("mdtraj/formats/lammpstrj.py", "LAMMPSTrajectoryFile", "arg", ("xyz", "lengths", "angles"), False),
    "arc": ("mdtraj/formats/arc.py", "ArcTrajectoryFile", "own", ("xyz", "lengths", "angles"), False),
    "lh5": ("mdtraj/formats/lh5.py", "LH5TrajectoryFile", "own", ("xyz",), False),
}


class SubsetTop(TM.TopologyTok):
    """topology token that records how it was derived"""

    def __init__(self, n_atoms, name="top", parent=None, indices=None):
        super().__init__(n_atoms, name)
        self.parent, self.indices = parent, indices

    def sym_getattr(self, interp, attr):
        if attr == "subset":
            def subset(idx):
                return SubsetTop(getattr(idx, "shape", (2,))[0] if hasattr(idx, "shape") else len(idx), self.name + ".subset", parent=self, indices=idx)
            return subset
        return super().sym_getattr(interp, attr)


def read_as_traj(ctx, case):
    fmt, with_atoms = case
    relfile, clsname, topsrc, shape, stored_time = READERS[fmt]
    c03.install(ctx)
    im = ctx.interp.import_models
    tmod = ctx.module("mdtraj/core/trajectory.py")
    im["mdtraj.core.trajectory"] = Namespace("trajectory", Trajectory=tmod.globals["Trajectory"])
    im["mdtraj.core"] = Namespace("core", trajectory=im["mdtraj.core.trajectory"])
    from .common import RepoSymbol

    im["mdtraj.formats.hdf5"] = Namespace("hdf5", _check_mode=RepoSymbol(ctx.interp, "mdtraj/formats/hdf5.py", "_check_mode"),
                                          ensure_mode=RepoSymbol(ctx.interp, "mdtraj/formats/hdf5.py", "ensure_mode") if False else None)
    mod = ctx.module(relfile)
    cls = mod.globals[clsname]
    F = ctx.int("F")
    ctx.assume(F >= 1)
    A = 5
    nsel = 2 if with_atoms else A
    atom_indices = TArr("atom_indices", shape=(2,), dtype="int32") if with_atoms else None
    calls = []
    fields = dict(xyz=TArr("file.xyz", shape=(F, nsel, 3)), time=TArr("file.time", shape=(F,)), lengths=TArr("file.lengths", shape=(F, 3)),
                  angles=TArr("file.angles", shape=(F, 3)))

    def read_model(interp, args, kwargs):
        calls.append(dict(kwargs, _args=args[1:]))
        if shape == "frames":
            Frames = mod.globals["Frames"]
            vals = dict(coordinates=fields["xyz"], time=fields["time"], cell_lengths=fields["lengths"], cell_angles=fields["angles"], velocities=None,
                        kineticEnergy=None, potentialEnergy=None, temperature=None, alchemicalLambda=None)
            return interp.call(Frames, [], vals)
        r = tuple(fields[k] for k in shape)
        return r[0] if len(r) == 1 else r

    ctx.interp.call_models[f"{mod.name}.{clsname}.read"] = read_model
    h = Obj(cls)
    top = SubsetTop(A, "file.top")
    pos0 = ctx.int("position_before")
    ctx.assume(pos0 >= 0)
    h.fields.update(_open=True, mode="r", _mode="r", _frame_index=pos0, _is_open=True)
    if topsrc == "own":
        cls.ns["topology"] = top  # the property / attribute is under contract elsewhere (C04); here it is a given value
        h.fields["topology"] = top
    n_frames, stride = ctx.int("n_frames"), ctx.int("stride")
    ctx.assume(n_frames >= 1, stride >= 1)
    args = [] if topsrc == "own" else [top]
    out = ctx.call_method(h, "read_as_traj", *args, n_frames=n_frames, stride=stride, atom_indices=atom_indices)
    ctx.ensure("no-exception", not out.raised)
    if out.raised:
        return
    ctx.cover("returned")
    t = out.value
    ctx.ensure("read-called-exactly-once", len(calls) == 1)
    if len(calls) == 1:
        k = calls[0]
        ctx.ensure("read-gets-the-caller's-n_frames,stride,atom_indices", k.get("n_frames") is n_frames and k.get("stride") is stride and k.get("atom_indices") is atom_indices and not k["_args"])
    ctx.ensure("class-attribute-distance_unit=the-format's-native-unit", TM.real_distance_unit(ctx.interp.repo, clsname) == TM.NATIVE_UNIT[clsname])
    x = t.fields["_xyz"]
    ctx.ensure("coordinates=stored-coordinates-converted-native->nm-exactly-once", x.base == "file.xyz" and x.idx == () and abs(x.scale - to_nm(clsname)) < 1e-12)
    if "lengths" in (shape if shape != "frames" else ("lengths", "angles")):
        L = t.fields["_unitcell_lengths"]
        ctx.ensure("cell-lengths=stored-lengths-converted-native->nm-exactly-once", L is not None and L.base == "file.lengths" and L.idx == () and abs(L.scale - to_nm(clsname)) < 1e-12)
    if shape == "frames" or "angles" in shape:
        a = t.fields["_unitcell_angles"]
        ctx.ensure("cell-angles=stored-angles-unconverted", a is not None and a.base == "file.angles" and a.idx == () and a.scale == 1.0)
    tm = t.fields["_time"]
    if stored_time:
        ctx.ensure("time=stored-time-unconverted", tm is not None and tm.base == "file.time" and tm.idx == () and tm.scale == 1.0)
    else:
        # formats without stored times: frame k of the result is file frame position_before + k*stride
        from mdvc.npmodel import NumpyT

        ar = NumpyT().np_arange(ctx.interp, tm.shape[0] if tm is not None else F)
        want = ar.sym_binop(ctx.interp, "Mult", stride, True).sym_binop(ctx.interp, "Add", pos0, False)
        ctx.ensure("time[k]=position_before+k*stride", tm is not None and tm.nf() == want.nf())
    rt = t.fields["_topology"]
    if with_atoms:
        ctx.ensure("topology-restricted-to-atom_indices", isinstance(rt, SubsetTop) and rt.parent is top and rt.indices is atom_indices)
    else:
        ctx.ensure("topology-is-the-file's/caller's-topology", rt is top)


def to_nm(clsname):
    unit = TM.NATIVE_UNIT[clsname]
    unit = unit if isinstance(unit, str) else unit[0]
    return {"nanometers": 1.0, "angstroms": 0.1, "angstrom": 0.1}[unit]


CASES = [(f, a) for f in READERS for a in (False, True)]
for _p in ("C01", "C02"):
    contract(_p, "mdtraj/formats/", "read_as_traj(hdf5|netcdf|mdcrd|xyz|lammpstrj|arc|lh5)", cases=CASES, replay="reader", covers=["returned"])(read_as_traj)


# =====================================================================================================
# load_<format>(filename, top, stride, atom_indices, frame): the glue between md.load and read_as_traj
LOADERS = {
    "netcdf": ("mdtraj/formats/netcdf.py", "load_netcdf", "NetCDFTrajectoryFile", True),
    "hdf5": ("mdtraj/formats/hdf5.py", "load_hdf5", "HDF5TrajectoryFile", False),
    "mdcrd": ("mdtraj/formats/mdcrd.py", "load_mdcrd", "MDCRDTrajectoryFile", True),
    "xyz": ("mdtraj/formats/xyzfile.py", "load_xyz", "XYZTrajectoryFile", True),
    "lammpstrj": ("mdtraj/formats/lammpstrj.py", "load_lammpstrj", "LAMMPSTrajectoryFile", True),
    "gro": ("mdtraj/formats/gro.py", "load_gro", "GroTrajectoryFile", False),
    "arc": ("mdtraj/formats/arc.py", "load_arc", "ArcTrajectoryFile", False),
    "lh5": ("mdtraj/formats/lh5.py", "load_lh5", "LH5TrajectoryFile", False),
}


def load_glue(ctx, case):
    """frame=i: seek(i) once, then read exactly one frame; otherwise no seek and no frame limit; stride and atom_indices reach
    read_as_traj unchanged; formats without an own topology get the caller's (parsed) topology; the file is closed afterwards"""
    fmt, with_frame = case
    relfile, fname, clsname, needs_top = LOADERS[fmt]
    c03.install(ctx)
    im = ctx.interp.import_models
    top = SubsetTop(5, "caller.top")
    im["mdtraj.core.trajectory"] = Namespace("trajectory", _parse_topology=lambda t, **k: t, Trajectory=None)
    from .common import RepoSymbol

    im["mdtraj.formats.hdf5"] = Namespace("hdf5", _check_mode=RepoSymbol(ctx.interp, "mdtraj/formats/hdf5.py", "_check_mode"))
    mod = ctx.module(relfile)
    events = []

    class FileStub:
        def __init__(self, *a, **k):
            events.append(("open", a, k))
            self.distance_unit = "angstroms"

        def __enter__(self):
            events.append(("enter",))
            return self

        def __exit__(self, *exc):
            events.append(("exit",))
            return False

        def seek(self, offset, whence=0):
            events.append(("seek", offset, whence))

        def read_as_traj(self, *a, **k):
            events.append(("read_as_traj", a, k))
            return "TRAJECTORY"

    mod.globals[clsname] = FileStub
    mod.globals["cast_indices"] = lambda x: x  # index validation is not part of this contract
    stride = ctx.int("stride")
    ctx.assume(stride >= 1)
    frame = ctx.int("frame") if with_frame else None
    if with_frame:
        ctx.assume(frame >= 0)
    atom_indices = TArr("atom_indices", shape=(2,), dtype="int32")
    kw = dict(stride=stride, atom_indices=atom_indices, frame=frame)
    if needs_top or fmt == "gro":
        kw["top"] = top
    out = ctx.call(mod.globals[fname], "/data/file." + fmt, **kw)
    ctx.ensure("no-exception", not out.raised)
    if out.raised:
        return
    ctx.cover("returned")
    kinds = [e[0] for e in events]
    ctx.ensure("file-opened-once-entered-and-closed", kinds.count("open") == 1 and kinds[0] == "open" and kinds[-1] == "exit" and events[0][1][0] == "/data/file." + fmt)
    reads = [e for e in events if e[0] == "read_as_traj"]
    seeks = [e for e in events if e[0] == "seek"]
    ctx.ensure("read_as_traj-called-once-and-its-result-returned", len(reads) == 1 and out.value == "TRAJECTORY")
    if len(reads) != 1:
        return
    a, k = reads[0][1], reads[0][2]
    if with_frame:
        ctx.ensure("frame=i:seek(i)-once-before-reading", len(seeks) == 1 and seeks[0][1] is frame and seeks[0][2] == 0 and kinds.index("seek") < kinds.index("read_as_traj"))
        ctx.ensure("frame=i:exactly-one-frame-is-read", k.get("n_frames") == 1)
    else:
        ctx.ensure("no-frame:no-seek-and-no-frame-limit", not seeks and k.get("n_frames") is None)
    ctx.ensure("stride-and-atom_indices-reach-read_as_traj-unchanged", k.get("stride") is stride and k.get("atom_indices") is atom_indices)
    if needs_top:
        ctx.ensure("the-caller's-topology-is-used", len(a) == 1 and a[0] is top)


GLUE_CASES = [(f, w) for f in LOADERS for w in (False, True)]
for _p in ("C02",):
    contract(_p, "mdtraj/formats/", "load_netcdf|load_hdf5|load_mdcrd|load_xyz|load_lammpstrj|load_gro|load_arc|load_lh5", cases=GLUE_CASES, replay="reader", covers=["returned"])(load_glue)
