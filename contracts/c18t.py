"""C18 -- the cursor layer of the text trajectory readers (xyz, lammpstrj, mdcrd): read / seek / tell / len over `_read`.

The three readers share one design: `_read()` parses ONE frame from the text handle and counts it in `_frame_index`; `read`, `seek`,
`tell` are loops around it.  The contracts are modular:

  `_read` (callee contract, used at every call site below; proved for the xyz and lammpstrj parsers at the end of this module on a line stream with
  symbolic numbers -- complete frame, end of file, truncated frame; the fixed-width mdcrd parser is covered by the bounded layer only):
        with the handle's cursor at frame p of a file of N frames:  p < N  -> returns frame p, cursor and `_frame_index` become p+1;
        p == N -> raises the module's `_EOF` and changes nothing.
  Representation invariant of an open reading handle:  `_frame_index` == cursor of `_fh`,  0 <= cursor <= N.

  read(n)     symbolic N, position p, n >= 1 (loop cut by an inductive invariant): returns frames p, p+1, ... in file order, min(n, N-p) of
              them; the position advances by exactly that number;  read() returns the N-p remaining frames and leaves the position at N;
              with stride 2 every second frame, position min(N, p + 2*count);
  seek        absolute (forward: advance loop; backward: the file is reopened and read from the start) and relative, target in [0, N]:
              afterwards position == target;   tell() == position;
  len (xyz)   == number of frames (files of 1..3 frames x 1..2 atoms: the line count is concrete), cursor and position untouched;
  every operation keeps the invariant and writes no module-level state (two handles cannot influence each other).
"""
import z3

from mdvc import core
from mdvc.core import SBool, SInt, Unsupported, term
from mdvc.pyinterp import ExcInst, LoopSpec, Namespace, Obj, PyExc
from mdvc.verify import contract

from . import c03

READERS = {
    "xyz": ("mdtraj/formats/xyzfile.py", "XYZTrajectoryFile", ("all_coords",), 1),
    "lammpstrj": ("mdtraj/formats/lammpstrj.py", "LAMMPSTrajectoryFile", ("all_coords", "all_lengths", "all_angles"), 3),
    "mdcrd": ("mdtraj/formats/mdcrd.py", "MDCRDTrajectoryFile", ("coords", "boxes"), 2),
}


class FH:
    """text handle positioned at a frame boundary: cursor = index of the next frame"""

    def __init__(self, fp, name, header_pending=0):
        # header_pending: title lines before the first frame that the opener still has to consume (mdcrd: 1)
        self.fp, self.name, self.closed, self.header_pending = fp, name, False, header_pending

    def close(self):
        self.closed = True

    def readline(self):
        # only the one-line header of an mdcrd file may be read outside _read
        self.header_pending -= 1
        return "title\n"


class Part:
    """component `which` of frame `k` as returned by _read (coordinates, cell lengths, ...)"""

    def __init__(self, k, which, sel=None):
        self.k, self.which, self.sel = k, which, sel

    def sym_getitem(self, interp, key):
        return Part(self.k, self.which, key)


class AbsList:
    """a list of symbolic length whose j-th item is component `which` of frame base + j*step"""

    def __init__(self, ex, n, base, step, which, uniform=None, sel=None):
        self.ex, self.n, self.base, self.step, self.which, self.uniform, self.sel = ex, n, base, step, which, uniform, sel

    def append(self, x):
        if self.uniform is not None or x is None:
            self.ex.require(f"read:`{self.which}`-every-frame-of-this-file-carries-the-same-kind-of-entry", z3.BoolVal(x is self.uniform[0] if self.uniform else False))
        else:
            ok = isinstance(x, Part) and x.which == self.which
            self.ex.require(f"read:appended-entry-is-a-`{self.which}`-of-a-frame", z3.BoolVal(ok))
            if ok:
                self.ex.require(f"read:`{self.which}`-frames-are-appended-in-file-order(next=position+count*stride)", x.k == self.base + self.n * self.step)
                same = (x.sel is None and self.sel is None) or (isinstance(x.sel, tuple) and self.sel is not None and len(x.sel) == 2 and x.sel[0] is self.sel and x.sel[1] == slice(None))
                self.ex.require(f"read:`{self.which}`-holds-" + ("the-rows-of-atom_indices(all-columns)" if self.sel is not None else "the-whole-frame-entry"), z3.BoolVal(same))
        self.n = self.n + 1

    def sym_iter(self, interp):
        # only for lists whose entries are all the same value (mdcrd: no frame has a box): exact for all()/any()
        if self.uniform is None:
            raise Unsupported("iteration over a list of symbolic length")
        return [self.uniform[0]] if interp.truth(SBool(self.n > 0)) else []


def trip_bound(interp, env, mod, st):
    """the number of iterations the REAL iterable of the for statement allows: a z3 Int, or None for itertools.count()"""
    it = interp.eval(st.iter, env, mod)
    if it == "<itertools.count>":
        return None
    if isinstance(it, tuple) and it and it[0] == "<range>" and len(it) == 2:
        b = term(it[1])
        return z3.If(b >= 0, b, 0)
    if isinstance(it, range) and it.step == 1 and it.start == 0:
        return z3.IntVal(len(it))
    raise Unsupported(f"loop over {it!r}")


def setup(ctx, fmt):
    relfile, clsname, lists, nret = READERS[fmt]
    c03.install(ctx)
    im = ctx.interp.import_models
    im["itertools"] = Namespace("itertools", count=lambda *a: "<itertools.count>")
    im["numpy"] = Namespace("numpy", array=lambda x, **k: x, asarray=lambda x, **k: x, float32="float32")
    mod = ctx.module(relfile)
    cls = mod.globals[clsname]
    real_range = range

    def b_range(*a):
        if any(core.is_sym(x) for x in a):
            return ("<range>",) + tuple(a)
        return real_range(*a)
    ctx.interp.builtins["range"] = b_range
    N, p = ctx.int("N"), ctx.int("position")
    ctx.assume(N >= 0, p >= 0, p <= N)
    h = Obj(cls)
    fh = FH(p.t, "/data/f." + fmt)
    h.fields.update(_mode="r", _is_open=True, _frame_index=p, _fh=fh, _filename="/data/f." + fmt, _line_counter=1, _n_frames=None, _n_atoms=2, _has_box=False)
    reads = []

    def read_model(interp, args, kwargs):
        self = args[0]
        f = self.fields["_fh"]
        ctx.ex.require("_read:the-handle-is-open", z3.BoolVal(isinstance(f, FH) and not f.closed))
        ctx.ex.require("_read:the-text-cursor-is-at-a-frame-boundary(title-line-consumed-exactly-once,no-other-line-read)", z3.BoolVal(isinstance(f, FH) and f.header_pending == 0))
        if interp.truth(SBool(f.fp < N.t)):
            k = f.fp
            f.fp = k + 1
            self.fields["_frame_index"] = self.fields["_frame_index"] + 1
            reads.append(k)
            parts = tuple(Part(k, w) for w in lists)
            if fmt == "mdcrd":
                parts = (parts[0], None)  # a file without box information
            return parts[0] if nret == 1 else parts
        raise PyExc(mod.globals["_EOF"]())
    ctx.interp.call_models[f"{mod.name}.{clsname}._read"] = read_model

    def open_model(interp, args, kwargs):
        ctx.ex.require("reopen:the-same-file-for-reading", z3.BoolVal(args[0] == h.fields["_filename"] and (len(args) < 2 or args[1] in ("r", "rb"))))
        return FH(z3.IntVal(0), args[0], header_pending=1 if fmt == "mdcrd" else 0)
    mod.globals["open_maybe_zipped"] = lambda *a, **k: open_model(ctx.interp, a, k)
    ctx.interp.builtins["open"] = lambda *a, **k: open_model(ctx.interp, a, k)
    return mod, cls, h, N, p, lists, reads


def rep(ctx, h, N, want, label):
    f = h.fields["_fh"]
    ctx.ensure(f"{label}:handle-open-at-a-frame-boundary", isinstance(f, FH) and not f.closed and f.header_pending == 0)
    ctx.ensure(f"{label}:position(_frame_index)==cursor-of-the-text-handle", term(h.fields["_frame_index"]) == f.fp)
    ctx.ensure(f"{label}:position-is-the-documented-one", f.fp == want)
    ctx.ensure(f"{label}:0<=position<=N", z3.And(f.fp >= 0, f.fp <= N.t))


def read(ctx, case):
    fmt, mode = case
    mod, cls, h, N, p, lists, reads = setup(ctx, fmt)
    globals_before = dict(mod.globals)
    ex = ctx.ex
    n = ctx.int("n_frames") if mode != "rest" else None
    stride = 2 if mode == "n-stride2" else None
    atoms = "<atom_indices>" if mode == "n-atoms" else None
    s = stride or 1
    if n is not None:
        ctx.assume(n >= 1)
    C = ctx.int("count")  # ghost: frames appended before the arbitrary iteration
    qual = f"{mod.name}.{cls.name}.read"

    def where(c):
        t = p.t + c * s
        return z3.If(t <= N.t, t, N.t)

    def havoc(interp, env, entry):
        f = h.fields["_fh"]
        if entry:
            ok = all(env.lookup(nm) == [] for nm in lists)
            return {"entry": True, "lists_empty": ok}
        f.fp = z3.Int(core.fresh_name("cursor"))
        h.fields["_frame_index"] = SInt(z3.Int(core.fresh_name("frame_index")))
        for nm in lists:
            uni = (None,) if (fmt == "mdcrd" and nm == "boxes") else None
            env.vars[nm] = AbsList(ex, C.t, p.t, s, nm, uniform=uni, sel=atoms if nm == lists[0] else None)
        return {"entry": False}

    def invariant(interp, env, g):
        f = h.fields["_fh"]
        if g.get("entry"):
            return [("lists-start-empty", z3.BoolVal(g["lists_empty"])), ("cursor==position", f.fp == p.t), ("position==cursor", term(h.fields["_frame_index"]) == f.fp)]
        ls = [env.lookup(nm) for nm in lists]
        cnt = ls[0].n
        out = [("every-list-has-`count`-entries", z3.And(*[l.n == cnt for l in ls])), ("count>=0", cnt >= 0),
               ("cursor==min(N,position+count*stride)", f.fp == where(cnt)), ("_frame_index==cursor", term(h.fields["_frame_index"]) == f.fp),
               ("appended-frames-exist", z3.Implies(cnt > 0, p.t + (cnt - 1) * s < N.t))]
        if n is not None:
            out.append(("count<=n_frames", cnt <= n.t))
        return out

    def bind_iter(interp, env, g, st):
        b = trip_bound(interp, env, mod, st)
        interp.assign(st.target, SInt(env.lookup(lists[0]).n), env, mod)
        return (env.lookup(lists[0]).n < b) if b is not None else z3.BoolVal(True)

    def after(interp, env, g, st):
        b = trip_bound(interp, env, mod, st)
        return (env.lookup(lists[0]).n == b) if b is not None else z3.BoolVal(False)
    ctx.interp.loop_specs[(qual, 0)] = LoopSpec(havoc, invariant, bind_iter=bind_iter, after=after)
    kw = {}
    if n is not None:
        kw["n_frames"] = n
    if stride:
        kw["stride"] = stride
    if atoms:
        kw["atom_indices"] = atoms
    out = ctx.call_method(h, "read", **kw)
    ctx.ensure("no-exception", not out.raised)
    if out.raised:
        return
    ctx.cover("returned")
    r = out.value if isinstance(out.value, tuple) else (out.value,)
    xs = r[0]
    ctx.ensure("returns-the-list-of-frames-built-by-the-loop", isinstance(xs, AbsList) and xs.which == lists[0])
    if not isinstance(xs, AbsList):
        return
    cnt = xs.n
    remaining = N.t - p.t
    if s == 1:
        want = remaining if n is None else z3.If(n.t <= remaining, n.t, remaining)
        ctx.ensure("number-of-frames==" + ("all-remaining" if n is None else "min(n,remaining)"), cnt == want)
        rep(ctx, h, N, p.t + want, "after-read")
    else:
        ctx.ensure("stride2:count<=n", cnt <= n.t)
        ctx.ensure("stride2:fewer-than-n-only-at-the-end-of-the-file", z3.Implies(cnt < n.t, p.t + cnt * s >= N.t))
        ctx.ensure("stride2:every-returned-frame-exists", z3.Implies(cnt > 0, p.t + (cnt - 1) * s < N.t))
        rep(ctx, h, N, where(cnt), "after-read")
    ctx.ensure("frames-are(position+j*stride)in-order", xs.base is p.t or z3.is_true(z3.simplify(xs.base == p.t)))
    if fmt == "mdcrd":
        ctx.ensure("mdcrd:no-box-in-the-file->None", r[1] is None)
    ctx.ensure("no-module-level-state-written(two-handles-are-independent)", all(mod.globals.get(k) is v for k, v in globals_before.items()) and len(mod.globals) == len(globals_before))


READ_CASES = [(f, m) for f in READERS for m in ("n", "rest", "n-stride2")]
contract("C18", "mdtraj/formats/", "read(xyz|lammpstrj|mdcrd)", cases=READ_CASES, replay="cursor:text", covers=["returned"], max_paths=200)(read)
# the same contract decides the partial-loading clauses of C02 for these readers: n_frames, stride, atom_indices (rows of the coordinates only)
contract("C02", "mdtraj/formats/", "read(xyz|lammpstrj|mdcrd)", cases=[(f, m) for f in READERS for m in ("n", "rest", "n-stride2", "n-atoms")], replay="reader", covers=["returned"],
         max_paths=200)(read)


def seek(ctx, case):
    fmt, mode = case
    mod, cls, h, N, p, lists, reads = setup(ctx, fmt)
    globals_before = dict(mod.globals)
    ex = ctx.ex
    off = ctx.int("offset")
    qual = f"{mod.name}.{cls.name}.seek"
    if mode == "abs-forward":
        ctx.assume(off >= p, off <= N)
        target, whence, start, steps = off.t, 0, p.t, off.t - p.t
    elif mode == "abs-backward":
        ctx.assume(off >= 0, off < p)
        target, whence, start, steps = off.t, 0, z3.IntVal(0), off.t
    elif mode == "rel-forward":
        ctx.assume(off >= 0, p + off <= N)
        target, whence, start, steps = p.t + off.t, 1, p.t, off.t
    else:
        ctx.assume(off < 0, p + off >= 0)
        target, whence, start, steps = p.t + off.t, 1, z3.IntVal(0), p.t + off.t
    C = ctx.int("done")

    def spec():
        def havoc(interp, env, entry):
            if entry:
                return {"entry": True}
            h.fields["_fh"].fp = z3.Int(core.fresh_name("cursor"))
            h.fields["_frame_index"] = SInt(z3.Int(core.fresh_name("frame_index")))
            return {"entry": False}

        def invariant(interp, env, g):
            f = h.fields["_fh"]
            c = z3.IntVal(0) if g.get("entry") else C.t
            return [("handle-open", z3.BoolVal(isinstance(f, FH) and not f.closed)), ("cursor==start+frames-skipped", f.fp == start + c),
                    ("_frame_index==cursor", term(h.fields["_frame_index"]) == f.fp), ("0<=skipped<=requested", z3.And(c >= 0, c <= steps))]

        def bind_iter(interp, env, g, st):
            b = trip_bound(interp, env, mod, st)
            interp.assign(st.target, SInt(C.t), env, mod)
            return C.t < b

        def advance(interp, env, g):
            # the invariant is re-checked for done+1
            g["c1"] = True
        return havoc, invariant, bind_iter, advance
    hv, inv, bi, adv = spec()

    def inv2(interp, env, g):
        f = h.fields["_fh"]
        c = z3.IntVal(0) if g.get("entry") else (C.t + 1 if g.get("c1") else C.t)
        return [("handle-open", z3.BoolVal(isinstance(f, FH) and not f.closed)), ("cursor==start+frames-skipped", f.fp == start + c),
                ("_frame_index==cursor", term(h.fields["_frame_index"]) == f.fp), ("0<=skipped<=requested", z3.And(c >= 0, c <= steps))]
    after = lambda interp, env, g, st: C.t == trip_bound(interp, env, mod, st)
    ctx.interp.loop_specs[(qual, 0)] = LoopSpec(hv, inv2, bind_iter=bi, advance=adv, after=after)
    ctx.interp.loop_specs[(qual, 1)] = LoopSpec(hv, inv2, bind_iter=bi, advance=adv, after=after)
    old_fh = h.fields["_fh"]
    out = ctx.call_method(h, "seek", off, whence)
    ctx.ensure("no-exception", not out.raised)
    if out.raised:
        return
    ctx.cover("returned")
    rep(ctx, h, N, target, "after-seek")
    if "backward" in mode:
        ctx.ensure("backward:the-old-text-handle-is-closed-and-replaced", old_fh.closed and h.fields["_fh"] is not old_fh)
    t = ctx.call_method(h, "tell")
    ctx.ensure("tell()==position", (not t.raised) and term(t.value) == target)
    ctx.ensure("no-module-level-state-written(two-handles-are-independent)", all(mod.globals.get(k) is v for k, v in globals_before.items()) and len(mod.globals) == len(globals_before))


SEEK_CASES = [(f, m) for f in READERS for m in ("abs-forward", "abs-backward", "rel-forward", "rel-backward")]
contract("C18", "mdtraj/formats/", "seek;tell(xyz|lammpstrj|mdcrd)", cases=SEEK_CASES, replay="cursor:text", covers=["returned"], max_paths=200)(seek)


def xyz_len(ctx, case):
    """len(): the line count of a concrete small file (N frames x A atoms); position and cursor symbolic and untouched"""
    nfr, nat = case
    mod, cls, h, N, p, lists, reads = setup(ctx, "xyz")
    ctx.assume(N == nfr)
    lines = []
    for f in range(nfr):
        lines += [f"{nat}\n", f"frame {f}\n"] + [f"C {f}.0 {a}.0 0.5\n" for a in range(nat)]
    opened = []

    class LineFH:
        def __init__(self):
            self.i, self.closed = 0, False

        def readline(self):
            self.i += 1
            return lines[self.i - 1] if self.i <= len(lines) else ""

        def sym_iter(self, interp):
            rest = lines[self.i:]
            self.i = len(lines)
            return rest

        def __enter__(self):
            return self

        def __exit__(self, *a):
            self.closed = True
            return False

        def close(self):
            self.closed = True

    def open2(*a, **k):
        ctx.ex.require("len:opens-the-same-file-for-reading", z3.BoolVal(a[0] == h.fields["_filename"] and (len(a) < 2 or a[1] == "r")))
        opened.append(LineFH())
        return opened[-1]
    mod.globals["open_maybe_zipped"] = open2
    fh0, fp0 = h.fields["_fh"], h.fields["_fh"].fp
    out = ctx.call(ctx.interp.builtins["len"], h)
    ctx.ensure("no-exception", not out.raised)
    if out.raised:
        return
    ctx.cover("returned")
    ctx.ensure("len==number-of-frames", term(out.value) == nfr)
    ctx.ensure("the-reading-handle-and-its-cursor-are-untouched", h.fields["_fh"] is fh0 and fh0.fp is fp0 and not fh0.closed)
    ctx.ensure("position-unchanged", term(h.fields["_frame_index"]) == p.t)
    ctx.ensure("the-counting-handle-is-closed-again", all(o.closed for o in opened))
    out2 = ctx.call(ctx.interp.builtins["len"], h)
    ctx.ensure("len-again==number-of-frames", (not out2.raised) and term(out2.value) == nfr)


contract("C18", "mdtraj/formats/xyzfile.py", "XYZTrajectoryFile.__len__", cases=[(n, a) for n in (1, 2, 3) for a in (1, 2)], replay="cursor:text", covers=["returned"])(xyz_len)


# ---- the one-frame parser of the xyz reader against the callee contract used above -------------------------------------------------------
class _NumLine:
    """an atom line `type x y z` whose three numbers are symbolic reals (text -> float conversion is the identity on them)"""

    def __init__(self, typ, vals):
        self.typ, self.vals = typ, vals

    def split(self):
        return [self.typ] + list(self.vals)

    def __eq__(self, o):
        return False

    __hash__ = object.__hash__


def xyz_parse_frame(ctx, case):
    """XYZTrajectoryFile._read on a line stream (2 atoms per frame, symbolic numbers):
         complete frame   returns the n_atoms x 3 numbers of the atom lines in order, consumes exactly count + comment + n_atoms lines,
                          position (_frame_index) + 1;
         end of file      raises _EOF, position unchanged, nothing consumed beyond the end;
         truncated frame  (file ends inside a frame) raises _EOF, position unchanged."""
    from mdvc import npobj
    from mdvc.core import rterm

    c03.install(ctx)
    im = ctx.interp.import_models
    im["numpy"] = npobj.NumpyO()
    im["itertools"] = Namespace("itertools", count=lambda *a: None)
    mod = ctx.module("mdtraj/formats/xyzfile.py")
    cls = mod.globals["XYZTrajectoryFile"]
    A = 2
    V = [[ctx.real(f"v{a}_{k}") for k in range(3)] for a in range(A)]
    frame = [f"{A}\n", "comment line\n"] + [_NumLine("C", V[a]) for a in range(A)]
    nxt = [f"{A}\n", "next frame\n"]
    lines = {"complete": frame + nxt, "end-of-file": [], "truncated": frame[:3]}[case]

    class LineFH:
        def __init__(self):
            self.i = 0

        def readline(self):
            self.i += 1
            return lines[self.i - 1] if self.i <= len(lines) else ""
    fh = LineFH()
    p = ctx.int("position")
    ctx.assume(p >= 0)
    h = Obj(cls)
    h.fields.update(_mode="r", _is_open=True, _frame_index=p, _fh=fh, _filename="/data/f.xyz", _line_counter=0, _n_frames=None)
    out = ctx.call_method(h, "_read")
    if case == "complete":
        ctx.ensure("no-exception", not out.raised)
        if out.raised:
            return
        ctx.cover("parsed")
        r = out.value
        ctx.ensure("shape=(n_atoms,3)", tuple(r.shape) == (A, 3))
        for a in range(A):
            for k in range(3):
                ctx.ensure(f"xyz[{a}][{k}]=number-{k}-of-atom-line-{a}", rterm(r[a][k]) == V[a][k].t)
        ctx.ensure("consumes-exactly-count+comment+n_atoms-lines(the-next-frame-is-untouched)", fh.i == A + 2)
        ctx.ensure("position-advances-by-one", term(h.fields["_frame_index"]) == p.t + 1)
    else:
        ctx.cover("eof")
        ctx.ensure("raises-the-module's-_EOF", out.raised and out.exc.name == "_EOF")
        ctx.ensure("position-unchanged", term(h.fields["_frame_index"]) == p.t)


contract("C18", "mdtraj/formats/xyzfile.py", "XYZTrajectoryFile._read", cases=["complete", "end-of-file", "truncated"], replay="cursor:text", covers=[])(xyz_parse_frame)
contract("C02", "mdtraj/formats/xyzfile.py", "XYZTrajectoryFile._read", cases=["complete", "end-of-file", "truncated"], replay="reader", covers=[])(xyz_parse_frame)


class _Tokens:
    """a text line given by its whitespace-separated tokens (strings, or symbolic reals for numbers)"""

    def __init__(self, toks):
        self.toks = list(toks)

    def split(self):
        return list(self.toks)

    def __eq__(self, o):
        return False

    __hash__ = object.__hash__


def lammps_parse_frame(ctx, case):
    """LAMMPSTrajectoryFile._read on a line stream (orthogonal box, 2 atoms whose lines come in REVERSE id order, symbolic numbers):
         complete frame   coordinates are stored by atom id (row id-1 = the x y z of the line with that id), cell lengths = hi - lo per axis, angles 90,
                          exactly 9 + n_atoms lines consumed, position + 1;    end of file  raises _EOF, position unchanged."""
    from mdvc import npobj
    from mdvc.core import rterm

    c03.install(ctx)
    im = ctx.interp.import_models
    im["numpy"] = npobj.NumpyO()
    im["itertools"] = Namespace("itertools", count=lambda *a: None)
    mod = ctx.module("mdtraj/formats/lammpstrj.py")
    cls = mod.globals["LAMMPSTrajectoryFile"]
    A = 2
    V = {i: [ctx.real(f"v{i}_{k}") for k in range(3)] for i in (1, 2)}
    LO, HI = [ctx.real(f"lo{k}") for k in range(3)], [ctx.real(f"hi{k}") for k in range(3)]
    frame = ["ITEM: TIMESTEP\n", "0\n", "ITEM: NUMBER OF ATOMS\n", f"{A}\n", "ITEM: BOX BOUNDS pp pp pp\n"] + [_Tokens([LO[k], HI[k]]) for k in range(3)] + \
            ["ITEM: ATOMS id type xu yu zu\n", _Tokens(["2", "1"] + V[2]), _Tokens(["1", "1"] + V[1])]
    lines = frame + ["ITEM: TIMESTEP\n"] if case == "complete" else []

    class LineFH:
        def __init__(self):
            self.i = 0

        def readline(self):
            self.i += 1
            return lines[self.i - 1] if self.i <= len(lines) else ""
    fh = LineFH()
    first = case != "complete" or ctx.ex.branch(z3.Bool("this-is-the-first-frame-read-by-the-handle"))
    p = SInt(z3.IntVal(0)) if first else ctx.int("position")
    if not first:
        ctx.assume(p >= 1)
    h = Obj(cls)
    h.fields.update(_mode="r", _is_open=True, _frame_index=p, _fh=fh, _filename="/data/f.lammpstrj", _line_counter=0)
    if not first:
        # the column layout detected at the first frame is kept by the handle
        h.fields.update(_atom_index_column=0, _atom_type_column=1, _xyz_columns=[2, 3, 4])
    out = ctx.call_method(h, "_read")
    if case == "complete":
        ctx.ensure("no-exception", not out.raised)
        if out.raised:
            return
        ctx.cover("parsed")
        xyz, lengths, angles = out.value
        for i in (1, 2):
            for k in range(3):
                ctx.ensure(f"xyz[id{i}-1][{k}]=number-{k}-of-the-line-with-atom-id-{i}", rterm(xyz[i - 1][k]) == V[i][k].t)
        for k in range(3):
            ctx.ensure(f"cell-length[{k}]=hi-lo", rterm(list(lengths)[k]) == HI[k].t - LO[k].t)
            a = list(angles)[k]
            ctx.ensure(f"cell-angle[{k}]=90", (rterm(a) == 90) if core.is_sym(a) else (float(a) == 90.0))
        ctx.ensure("consumes-exactly-9+n_atoms-lines(the-next-frame-is-untouched)", fh.i == 9 + A)
        ctx.ensure("position-advances-by-one", term(h.fields["_frame_index"]) == term(p) + 1)
    else:
        ctx.cover("eof")
        ctx.ensure("raises-the-module's-_EOF", out.raised and out.exc.name == "_EOF")
        ctx.ensure("position-unchanged", term(h.fields["_frame_index"]) == term(p))


contract("C18", "mdtraj/formats/lammpstrj.py", "LAMMPSTrajectoryFile._read", cases=["complete", "end-of-file"], replay="cursor:text", covers=[])(lammps_parse_frame)
contract("C02", "mdtraj/formats/lammpstrj.py", "LAMMPSTrajectoryFile._read", cases=["complete", "end-of-file"], replay="reader", covers=[])(lammps_parse_frame)
