import os
import sys
"""C06 -- RMSD by the quaternion characteristic polynomial (QCP): `msdFromMandG` (mdtraj/rmsd/src/theobald_rmsd.cpp).

The function is executed from clang's AST on a symbolic inner-product matrix M; the values it computes are compared, as EXACT
polynomial identities (sympy normal form of the terms the real code produced), with the mathematics the method rests on:

  K(M)            the 4x4 symmetric key matrix of Horn / Theobald built from M (written here from the paper)
  charpoly        det(K - x I) = x^4 + C_2 x^2 + C_1 x + C_0  with the code's C_2, C_1, C_0  (so the code's lambda, a root of that
                  quartic, is an eigenvalue of K)
  Horn identity   for every quaternion q:  q^T K q = sum_ij R(q)_ij M_ij * 1  with R(q) the code's rotation formula (homogeneous
                  form), hence  sum |x_i - R y_i|^2 = G_x + G_y - 2 q^T K q  for unit q, and the minimum over rotations is
                  G_x + G_y - 2 lambda_max(K)
  result          msd = max(0, (G_x + G_y - 2 lambda) / numAtoms)
  rotation        the code's q is the cofactor vector of the first row of K - lambda I:  (K - lambda I) q = (det, 0, 0, 0), so
                  with det = 0 (lambda a root) q is an eigenvector for lambda;  R(q/|q|) is orthogonal with determinant +1
                  (R^T R = |q|^4 I, det R = |q|^6 for the homogeneous formula) -- a proper rotation that attains the minimum.
Assumed (not proved here; bounded check against an SVD/Kabsch oracle): `DirectSolve` returns the LARGEST real root of the
quartic;  float32 accumulation of M and G in the SSE kernels;  the 1e-11 threshold below which the identity is returned.
"""
import sympy as sp
import z3

from mdvc import core, polyid
from mdvc.cinterp import Ptr, Region
from mdvc.core import SReal, rterm, term, SInt
from mdvc.verify import contract

from . import c03

INC = dict(include=("mdtraj/rmsd/include", "mdtraj/rmsd/src", "mdtraj/geometry/include"))
FILE = "mdtraj/rmsd/src/theobald_rmsd.cpp"


def key_matrix(S):
    """Horn's N matrix / Theobald's K from the correlation matrix S (3x3 sympy)"""
    Sxx, Sxy, Sxz, Syx, Syy, Syz, Szx, Szy, Szz = (S[i, j] for i in range(3) for j in range(3))
    return sp.Matrix([[Sxx + Syy + Szz, Syz - Szy, Szx - Sxz, Sxy - Syx],
                      [Syz - Szy, Sxx - Syy - Szz, Sxy + Syx, Szx + Sxz],
                      [Szx - Sxz, Sxy + Syx, -Sxx + Syy - Szz, Syz + Szy],
                      [Sxy - Syx, Szx + Sxz, Syz + Szy, -Sxx - Syy + Szz]])


def rot_from_quaternion(q0, q1, q2, q3):
    """the homogeneous rotation formula (entries as the code stores them: rot[3*r+c])"""
    a2, x2, y2, z2 = q0 * q0, q1 * q1, q2 * q2, q3 * q3
    xy, az, zx, ay, yz, ax = q1 * q2, q0 * q3, q3 * q1, q0 * q2, q2 * q3, q0 * q1
    R = [None] * 9
    R[0], R[3], R[6] = a2 + x2 - y2 - z2, 2 * (xy + az), 2 * (zx - ay)
    R[1], R[4], R[7] = 2 * (xy - az), a2 - x2 + y2 - z2, 2 * (yz + ax)
    R[2], R[5], R[8] = 2 * (zx + ay), 2 * (yz - ax), a2 - x2 - y2 + z2
    return R


def msd_from_m_and_g(ctx, case):
    compute_rot = case == "with-rotation"
    ex = ctx.ex
    c = ctx.load_c(FILE, ["msdFromMandG"], **INC)
    M = Region("M")
    M.local = [ctx.real(f"m{i}") for i in range(9)]
    rot = Region("rot")
    rot.local = [None] * 9
    Gx, Gy, N = ctx.real("G_x"), ctx.real("G_y"), ctx.int("numAtoms")
    ctx.assume(N >= 1)
    lam = ctx.real("lambda")
    seen = {}

    def direct_solve(interp, args):
        seen["args"] = [rterm(a) for a in args]
        l0, c0, c1, c2 = seen["args"]
        # ASSUMED contract of DirectSolve: a root of x^4 + C_2 x^2 + C_1 x + C_0 (the largest one)
        ex.assume(lam.t * lam.t * lam.t * lam.t + c2 * lam.t * lam.t + c1 * lam.t + c0 == 0)
        return lam

    c.call_models["DirectSolve"] = direct_solve
    grabbed = {}

    def assign_hook(interp, env, name, v):
        if name == "qsqr":
            seen["q"] = [rterm(interp.getvar(env, nm)) for nm in ("q0", "q1", "q2", "q3")]
            # cut: name the four (degree-3) polynomials so that the normalisation step is reasoned about on four variables
            fresh = [z3.Real(core.fresh_name(nm)) for nm in ("Q0", "Q1", "Q2", "Q3")]
            for nm, f, old in zip(("q0", "q1", "q2", "q3"), fresh, seen["q"]):
                ex.assume(f == old)
                interp.setvar(env, nm, SReal(f))
            seen["qname"] = fresh
            return SReal(sum(f * f for f in fresh))
        return None

    c.assign_hook = assign_hook
    out = ctx.ccall("msdFromMandG", Ptr(M, 0), Gx, Gy, N, 1 if compute_rot else 0, Ptr(rot, 0))
    ctx.ensure("returns-normally", out.exc is None)
    if out.exc is not None or "args" not in seen:
        ctx.ensure("quartic-solver-called-once", False)
        return
    ctx.cover("returned")
    env = {}
    m = [polyid.to_sympy(x.t, env) for x in M.local]
    # the code indexes M[i + 3*j]; S_ij := M[i + 3*j]
    S = sp.Matrix(3, 3, lambda i, j: m[i + 3 * j])
    K = key_matrix(S)
    x = sp.Symbol("x", real=True)
    P = sp.Poly((K - x * sp.eye(4)).det(method="berkowitz"), x)
    coeffs = P.all_coeffs()  # x^4, x^3, x^2, x, 1
    l0, c0, c1, c2 = seen["args"]
    ctx.ensure("charpoly:leading-coefficient-1-and-no-cubic-term(trace K = 0)", sp.expand(coeffs[0] - 1) == 0 and sp.expand(coeffs[1]) == 0, kind="lemma-poly")
    ctx.ensure("charpoly:C_2=coefficient-of-x^2=-2*sum(M_ij^2)", polyid.poly_equal(c2, coeffs[2], env) and sp.expand(coeffs[2] + 2 * sum(v * v for v in m)) == 0, kind="lemma-poly")
    ctx.ensure("charpoly:C_1=coefficient-of-x=-8*det(M)", polyid.poly_equal(c1, coeffs[3], env) and sp.expand(coeffs[3] + 8 * S.det()) == 0, kind="lemma-poly")
    ctx.ensure("charpoly:C_0=constant-term=det(K)", polyid.poly_equal(c0, coeffs[4], env), kind="lemma-poly")
    # Horn's identity for the code's rotation formula (homogeneous in q): q^T K q = sum_ij R_ij(q) M_ij ... with R stored as rot[3r+c]
    q = sp.symbols("q0 q1 q2 q3", real=True)
    Rq = rot_from_quaternion(*q)
    qv = sp.Matrix(q)
    quad = sp.expand((qv.T * K * qv)[0, 0])
    tr1 = sp.expand(sum(Rq[3 * r + cc] * S[r, cc] for r in range(3) for cc in range(3)))
    tr2 = sp.expand(sum(Rq[3 * r + cc] * S[cc, r] for r in range(3) for cc in range(3)))
    # the convention that makes the three kernels fit together: msd_atom_major builds M[3i+j] = sum a_i b_j, rot_atom_major applies
    # x'_j = sum_i x_i rot[3i+j] to structure a, so the overlap after rotation is sum_ij rot[3i+j] M[3i+j]
    ctx.ensure("Horn-identity:q^T.K.q=sum_ij-R(q)[3i+j]*M[3i+j](overlap-of-a.R(q)-with-b)", sp.expand(quad - tr2) == 0, kind="lemma-poly")
    RR = sp.Matrix(3, 3, lambda r, cc: Rq[3 * r + cc])
    n2 = sum(v * v for v in q)
    ctx.ensure("R(q)^T.R(q)=|q|^4*I", (RR.T * RR - n2 ** 2 * sp.eye(3)).expand() == sp.zeros(3, 3), kind="lemma-poly")
    ctx.ensure("det R(q)=|q|^6(proper-rotation)", sp.expand(RR.det() - n2 ** 3) == 0, kind="lemma-poly")
    # result
    r = rterm(out.value)
    raw = (rterm(Gx) + rterm(Gy) - 2 * lam.t) / z3.ToReal(term(N))
    ctx.ensure("msd=max(0,(G_x+G_y-2*lambda)/numAtoms)", r == z3.If(raw > 0, raw, 0))
    if compute_rot:
        vals = rot.local
        ctx.ensure("rotation-written(9-cells)", z3.BoolVal(all(v is not None for v in vals)))
        if any(v is None for v in vals):
            return
        small = [h for h in ex.path.hyps if "qsqr" in str(h)]
        ident = all(not core.is_sym(v) for v in vals)
        if ident:
            ctx.cover("identity-returned-below-threshold")
            return
        ctx.cover("rotation-computed")
        # the un-normalised quaternion of the code = cofactors of the first row of K - lambda I
        lamS = sp.Symbol("lambda", real=True)
        A = K - lamS * sp.eye(4)
        cof = [A.cofactor(0, j, method="berkowitz") for j in range(4)]
        prod = (A * sp.Matrix(cof)).expand()
        ctx.ensure("cofactor-vector:(K-lambda*I).q=(det,0,0,0)", all(sp.expand(prod[i, 0]) == 0 for i in (1, 2, 3)) and sp.expand(prod[0, 0] - A.det(method="berkowitz")) == 0, kind="lemma-poly")
        qcode = seen.get("q")
        ctx.ensure("code's-q-captured", z3.BoolVal(qcode is not None))
        if qcode is not None:
            env["lambda"] = lamS
            ok = all(polyid.poly_equal(qc, cf, env) for qc, cf in zip(qcode, cof))
            ctx.ensure("q=cofactors-of-the-first-row-of(K-lambda*I)(an-eigenvector-for-lambda)", ok, kind="lemma-poly")
            # rot = R(q/normq) with normq = sqrt(|q|^2): as rational functions of (q, normq), rot[k]*normq^2 = R(q)[k] (homogeneous
            # formula on the un-normalised q); normq^2 = |q|^2 > 0 on this path by the sqrt axiom and the threshold test
            qn = seen["qname"]
            qs = sum(x * x for x in qn)
            Rh = rot_from_quaternion(*qn)
            from mdvc import npreal

            nq = npreal.SQRT(qs)
            ctx.ensure("normq^2=|q|^2>0", z3.And(nq * nq == qs, qs > 0))
            env2 = {}
            nS = polyid.to_sympy(nq, env2)
            import os
            if os.environ.get("MDVC_DEBUG"):
                print("DEBUG nq:", nq, "| rot0:", str(rterm(vals[0]))[:300])
            ok = all(polyid.rational_equal(polyid.to_sympy(rterm(vals[k]), env2) * nS ** 2, polyid.to_sympy(Rh[k], env2)) for k in range(9))
            ctx.ensure("rot=R(q/normq):rot[k]*normq^2=R(q)[k]-for-the-nine-entries", ok, kind="lemma-poly")


CASES = ["no-rotation", "with-rotation"]
contract("C06", FILE, "msdFromMandG", cases=CASES, lang="c", replay="rmsd", covers=["returned"], max_paths=50)(msd_from_m_and_g)

# the cache clause of Trajectory.superpose (md.rmsd(precentered=True) trusts the cached traces): contract shared with C03
contract("C06", "mdtraj/core/trajectory.py", "Trajectory.superpose", replay="ops")(c03.superpose)
contract("C06", "mdtraj/core/trajectory.py", "Trajectory.center_coordinates", replay="ops")(c03.center)


# =====================================================================================================
# the SSE accumulation kernel msd_atom_major (theobald_rmsd_sse.h): inner-product matrix of two centred structures
def msd_atom_major(ctx, case):
    """for n atoms (n concrete per case: every remainder modulo the SIMD width 4, one and two full blocks; coordinates symbolic) the
    matrix handed to msdFromMandG is  M[3*i + j] = sum_atoms a[atom][i] * b[atom][j]  (exact polynomial identity on the code's terms:
    deinterleaving loads, tail masks and the horizontal-add epilogue included), together with G_a, G_b, n and the rotation request;
    reading never goes beyond the last real atom in the tail block."""
    import sympy as sp

    n, compute_rot = case
    ex = ctx.ex
    c = ctx.load_c(FILE, ["msd_atom_major", "aos_deinterleaved_loadu"], **INC)
    A, B, rot = Region("a"), Region("b"), Region("rot")
    A.mem0, B.mem0 = A.mem, B.mem
    Ga, Gb = ctx.real("G_a"), ctx.real("G_b")
    calls = []

    def msd_model(interp, args):
        Mp = args[0]
        calls.append(dict(M=[Mp.region.read(Mp.off + k) for k in range(9)], Ga=args[1], Gb=args[2], n=args[3], rot=args[4], rotp=args[5]))
        return SReal(z3.Real("msd_result"))

    c.call_models["msdFromMandG"] = msd_model
    out = ctx.ccall("msd_atom_major", n, ((n + 3) // 4) * 4, Ptr(A, 0), Ptr(B, 0), Ga, Gb, 1 if compute_rot else 0, Ptr(rot, 0))
    ctx.ensure("returns-normally", out.exc is None)
    if out.exc is not None:
        return
    ctx.cover("returned")
    ctx.ensure("msdFromMandG-called-once-and-its-result-returned", len(calls) == 1 and rterm(out.value) == z3.Real("msd_result"))
    if len(calls) != 1:
        return
    k = calls[0]
    ctx.ensure("G_a,G_b,atom-count,rotation-request-passed-through", z3.And(rterm(k["Ga"]) == rterm(Ga), rterm(k["Gb"]) == rterm(Gb), core.term(k["n"]) == n,
                                                                            z3.BoolVal(bool(k["rot"]) == compute_rot and k["rotp"].region is rot)))
    env = {}
    ok = True
    bad = []
    for i in range(3):
        for j in range(3):
            got = polyid.to_sympy(rterm(k["M"][3 * i + j]), env)
            want = sum(polyid.to_sympy(z3.Select(A.mem0, 3 * atom + i), env) * polyid.to_sympy(z3.Select(B.mem0, 3 * atom + j), env) for atom in range(n))
            if sp.expand(got - want) != 0:
                ok = False
                bad.append((i, j))
    ctx.ensure("M[3i+j]=sum_atoms-a[atom][i]*b[atom][j]" + ("" if ok else f"(wrong entries {bad})"), ok, kind="lemma-poly")
    hi = 3 * n
    reads_ok = all(z3.is_int_value(z3.simplify(t)) and z3.simplify(t).as_long() < hi for r in (A, B) for t in r.reads)
    ctx.ensure("no-read-beyond-the-last-real-atom", reads_ok)
    ctx.ensure("inputs-not-written", not A.writes and not B.writes)


MSD_CASES = [(n, r) for n in (1, 2, 3, 4, 5, 6, 7, 8, 9) for r in (False,)] + [(7, True)]
contract("C06", "mdtraj/rmsd/src/theobald_rmsd_sse.h", "msd_atom_major", cases=MSD_CASES, lang="c", replay="rmsd", covers=["returned"], max_paths=50)(msd_atom_major)


def center_and_trace(ctx, case):
    """inplace_center_and_trace_atom_major (center_sse.h), n atoms concrete per case (every remainder modulo 4), 2 frames, symbolic
    coordinates: every frame is shifted by ITS OWN mean position (computed from that frame only), the stored trace is the sum of the
    squared centred coordinates of that frame, nothing else is written.  Exact rational-function identities (the float cast of the
    mean is the identity over the reals)."""
    import sympy as sp

    n = case
    F = 2
    c = ctx.load_c("mdtraj/rmsd/src/center.cpp", ["inplace_center_and_trace_atom_major", "aos_deinterleaved_loadu", "aos_interleaved_storeu"], **INC)
    X, T = Region("coords"), Region("traces")
    X.mem0, T.mem0 = X.mem, T.mem
    out = ctx.ccall("inplace_center_and_trace_atom_major", Ptr(X, 0), Ptr(T, 0), F, n)
    ctx.ensure("returns-normally", out.exc is None)
    if out.exc is not None:
        return
    ctx.cover("returned")
    env = {}
    x0 = lambda k, a, d: polyid.to_sympy(z3.Select(X.mem0, 3 * (k * n + a) + d), env)
    ok_c, ok_t = True, True
    for k in range(F):
        mean = [sum(x0(k, a, d) for a in range(n)) / n for d in range(3)]
        tr = 0
        for a in range(n):
            for d in range(3):
                got = polyid.to_sympy(z3.simplify(z3.Select(X.mem, 3 * (k * n + a) + d)), env)
                want = x0(k, a, d) - mean[d]
                tr += want ** 2
                if sp.cancel(sp.together(got - want)) != 0:
                    ok_c = False
        got_t = polyid.to_sympy(z3.simplify(z3.Select(T.mem, k)), env)
        if sp.cancel(sp.together(got_t - tr)) != 0:
            ok_t = False
    ctx.ensure("coordinates'=coordinates-mean-of-the-same-frame", ok_c, kind="lemma-poly")
    ctx.ensure("traces[k]=sum-of-squared-centred-coordinates-of-frame-k", ok_t, kind="lemma-poly")
    idx_ok = all(z3.is_int_value(z3.simplify(w[0])) and 0 <= z3.simplify(w[0]).as_long() < 3 * n * F for w in X.writes) and \
        all(z3.is_int_value(z3.simplify(w[0])) and 0 <= z3.simplify(w[0]).as_long() < F for w in T.writes)
    ctx.ensure("writes-stay-inside-the-two-arrays", idx_ok)
    ctx.ensure("reads-stay-inside-the-coordinate-array", all(z3.is_int_value(z3.simplify(t)) and 0 <= z3.simplify(t).as_long() < 3 * n * F for t in X.reads))


contract("C06", "mdtraj/rmsd/src/center_sse.h", "inplace_center_and_trace_atom_major", cases=[1, 2, 3, 4, 5, 6, 7, 8, 9], lang="c", replay="rmsd", covers=["returned"], max_paths=50)(center_and_trace)


def rot_atom_major(ctx, case):
    """rot_atom_major (rotation_sse.h): every atom x of the conformation becomes x' with x'_j = sum_i x_i rot[3i+j] (n concrete per case:
    every remainder modulo 4; coordinates and matrix symbolic); nothing else is written, the matrix is not modified"""
    import sympy as sp

    n = case
    c = ctx.load_c("mdtraj/rmsd/src/rotation.cpp", ["rot_atom_major", "aos_deinterleaved_loadu", "aos_interleaved_storeu", "_mm_add3_ps"], **INC)
    A, Rm = Region("a"), Region("rot")
    A.mem0, Rm.mem0 = A.mem, Rm.mem
    out = ctx.ccall("rot_atom_major", n, Ptr(A, 0), Ptr(Rm, 0))
    ctx.ensure("returns-normally", out.exc is None)
    if out.exc is not None:
        return
    ctx.cover("returned")
    env = {}
    ok = True
    for atom in range(n):
        for j in range(3):
            got = polyid.to_sympy(z3.simplify(z3.Select(A.mem, 3 * atom + j)), env)
            want = sum(polyid.to_sympy(z3.Select(A.mem0, 3 * atom + i), env) * polyid.to_sympy(z3.Select(Rm.mem0, 3 * i + j), env) for i in range(3))
            if sp.expand(got - want) != 0:
                ok = False
    ctx.ensure("x'[j]=sum_i-x[i]*rot[3i+j]-for-every-atom", ok, kind="lemma-poly")
    ctx.ensure("rotation-matrix-not-written", not Rm.writes)
    ctx.ensure("writes-stay-inside-the-conformation", all(z3.is_int_value(z3.simplify(w[0])) and 0 <= z3.simplify(w[0]).as_long() < 3 * n for w in A.writes))


contract("C06", "mdtraj/rmsd/src/rotation_sse.h", "rot_atom_major", cases=[1, 2, 3, 4, 5, 6, 7, 9], lang="c", replay="rmsd", covers=["returned"], max_paths=50)(rot_atom_major)


# =====================================================================================================
# the quartic solver behind DirectSolve (Ferrari's method) -- reduces the assumed contract of DirectSolve
def _reduce(expr, rels):
    """expr modulo the relations  s**2 == value  (in the given order), for square-root symbols s"""
    import sympy as sp

    e = sp.together(expr)
    num, den = sp.fraction(e)
    num = sp.expand(num)
    for s, val in rels:
        poly = sp.Poly(num, s)
        red = 0
        for (k,), c in poly.terms():
            red += c * (val ** (k // 2)) * (s ** (k % 2))
        num = sp.expand(sp.numer(sp.together(red)))
    return sp.simplify(num)


def quartic(ctx, case):
    """quartic_equation_solve_exact(d0, d1, d2, d3 = 0, d4 = 1) as DirectSolve calls it, with solve_cubic_equation replaced by its contract
    (every value it reports as a real root is a root of the resolvent cubic it was given): on the generic path (R^2 = u1 - a2 > 0) every
    value reported with nr12 / nr34 = 2 is a root of x^4 + d2 x^2 + d1 x + d0  (exact identities modulo the square-root relations and the
    resolvent equation; decided by sympy on the terms the real code produced).  DirectSolve returns the maximum of the four values.
    Not shown: that for four real roots D^2, E^2 >= 0 (so that the four values ARE the roots): Ferrari's theorem, assumed."""
    import sympy as sp
    from mdvc import npreal
    from mdvc.cinterp import AddrOf

    nr_cubic = case
    ex = ctx.ex
    c = ctx.load_c(FILE, ["quartic_equation_solve_exact"], **INC)
    c.merge_pure = False  # the identities below are polynomial: every ?: of the solver is explored as its own path
    d0, d1, d2 = ctx.real("d0"), ctx.real("d1"), ctx.real("d2")
    seen = {}
    X = [ctx.real(f"x{k}") for k in (1, 2, 3)]

    def cubic_model(interp, args):
        c3, c2, c1, c0 = (rterm(a) if core.is_sym(a) else z3.RealVal(repr(float(a))) for a in args[:4])
        seen["coef"] = (c3, c2, c1, c0)
        for ref, v in zip(args[4:7], X):
            ref.write(0, v)
        roots = X if nr_cubic == 3 else X[:1]
        for v in roots:  # contract of solve_cubic_equation: reported real roots are roots
            ex.assume(c3 * v.t * v.t * v.t + c2 * v.t * v.t + c1 * v.t + c0 == 0)
        # ... and the value the caller selects (x1, or max(x1, x3) of three) is the LARGEST real root.  The resolvent f satisfies
        # f(a2) = -a1^2 <= 0 (identity checked below) and f -> +inf, so its largest real root is >= a2 (intermediate value theorem):
        u = X[0].t if nr_cubic == 1 else z3.If(X[0].t > X[2].t, X[0].t, X[2].t)
        ex.assume(u >= -c2)
        return nr_cubic

    c.call_models["solve_cubic_equation"] = cubic_model
    R1, R2_, R3, R4 = (ctx.real(f"r{k}_out") for k in (1, 2, 3, 4))
    cells = {}

    class Out:
        def __init__(self, name):
            self.name, self.region, self.off = name, self, 0

        def write(self, idx, v):
            cells[self.name] = v

        def read(self, idx):
            return cells[self.name]

        def add(self, k):
            return self

    outs = [Out(n) for n in ("r1", "r2", "r3", "r4", "nr12", "nr34")]
    from mdvc.cinterp import Ptr as _Ptr

    class OutPtr(_Ptr):
        pass
    ptrs = []
    for o in outs:
        p = _Ptr(o, 0)
        ptrs.append(p)
    # precondition (four real roots, as for the characteristic polynomial of a symmetric matrix), in the only form used here:
    # a biquadratic (d1 = 0) has a non-negative discriminant
    ctx.assume(z3.Implies(d1.t == 0, d2.t * d2.t - 4 * d0.t >= 0))
    yy = sp.Symbol("y")
    A0, A1, A2 = sp.symbols("A0 A1 A2")
    fres = yy ** 3 - A2 * yy ** 2 - 4 * A0 * yy + (4 * A0 * A2 - A1 ** 2)
    ctx.ensure("resolvent(a2)=-a1^2(so-its-largest-root-is>=a2)", sp.expand(fres.subs(yy, A2) + A1 ** 2) == 0, kind="lemma-poly")
    out = ctx.ccall("quartic_equation_solve_exact", *ptrs, d0, d1, d2, 0.0, 1.0)
    ctx.ensure("returns-normally", out.exc is None)
    if out.exc is not None or "coef" not in seen:
        return
    ctx.cover("returned")
    c3, c2, c1, c0 = seen["coef"]
    ctx.ensure("resolvent-cubic:y^3-a2*y^2+(a1*a3-4*a0)*y+(4*a0*a2-a1^2-a0*a3^2)(a3=0)", z3.And(c3 == 1, c2 == -rterm(d2), c1 == -4 * rterm(d0), c0 == 4 * rterm(d0) * rterm(d2) - rterm(d1) * rterm(d1)))
    # which square roots did this path take?
    env = {}
    a0, a1, a2 = (polyid.to_sympy(rterm(v), env) for v in (d0, d1, d2))
    x = sp.Symbol("xq")
    P = lambda r: r ** 4 + a2 * r ** 2 + a1 * r + a0
    sq = [(t, s) for (t, s) in ex.path.ghost.get("sqrt_terms", [])]
    n12, n34 = cells.get("nr12"), cells.get("nr34")
    ctx.ensure("return-value=nr12+nr34", core.term(out.value) == core.term(n12) + core.term(n34))
    # identify u1 (the resolvent root the code chose) through R2 = u1 - a2 on the generic path
    vals = {k: cells.get(k) for k in ("r1", "r2", "r3", "r4")}
    generic = any("R!=0" in str(h) for h in [])  # placeholder, decided below from the terms
    checked = 0
    for key, flag in (("r1", n12), ("r2", n12), ("r3", n34), ("r4", n34)):
        if not (isinstance(flag, int) and flag == 2):
            continue
        v = vals[key]
        if not core.is_sym(v):
            continue
        e = polyid.to_sympy(rterm(v), env)
        roots = [s for s in e.free_symbols if s.name.startswith("sqrt(")]
        if len(roots) != 2:
            continue  # not the generic path (R = 0 branch): nothing claimed
        # order: the inner root R appears inside the argument of the outer root
        leaves = env.get("#z3leaves", {})
        args = {}
        for s in roots:
            zt = polyid.LEAVES[s.name]
            args[s] = polyid.to_sympy(zt.arg(0), env)
        outer = [s for s in roots if any(o in args[s].free_symbols for o in roots if o is not s)]
        if len(outer) != 1:
            continue
        sD = outer[0]
        sR = [s for s in roots if s is not sD][0]
        # u1 appears in arg(R): R^2 = u1 - a2  =>  eliminate a0 with the resolvent equation at u1
        u_syms = [s for s in args[sR].free_symbols if s.name in ("x1", "x2", "x3")]
        if len(u_syms) != 1:
            continue
        u1 = u_syms[0]
        cub = u1 ** 3 - a2 * u1 ** 2 - 4 * a0 * u1 + (4 * a0 * a2 - a1 ** 2)
        a0sol = sp.solve(cub, a0)
        if len(a0sol) != 1:
            continue
        sub = lambda ex_: ex_.subs(a0, a0sol[0])
        val = _reduce(sub(P(e)), [(sD, sub(args[sD])), (sR, sub(args[sR]))])
        checked += 1
        ctx.ensure(f"{key}-is-a-root-of-the-quartic(modulo-the-square-root-relations-and-the-resolvent-equation)", val == 0, kind="lemma-poly")
    if checked:
        ctx.cover("roots-checked")


contract("C06", FILE, "quartic_equation_solve_exact", cases=[1, 3], lang="c", replay="rmsd", covers=["returned", "roots-checked"], max_paths=200)(quartic)


def direct_solve(ctx, case=None):
    """DirectSolve(lambda, C_0, C_1, C_2): solves x^4 + C_2 x^2 + C_1 x + C_0 (d3 = 0, d4 = 1) and returns the largest of the four
    values the quartic solver reports (the initial guess lambda is not used)"""
    c = ctx.load_c(FILE, ["DirectSolve"], **INC)
    C0, C1, C2, lam = ctx.real("C_0"), ctx.real("C_1"), ctx.real("C_2"), ctx.real("lambda0")
    vals = [ctx.real(f"root{k}") for k in range(4)]
    seen = {}

    def quartic_model(interp, args):
        seen["coef"] = args[6:11]
        for ref, v in zip(args[:4], vals):
            ref.write(0, v)
        args[4].write(0, 2)
        args[5].write(0, 2)
        return 4

    c.call_models["quartic_equation_solve_exact"] = quartic_model
    out = ctx.ccall("DirectSolve", lam, C0, C1, C2)
    ctx.ensure("returns-normally", out.exc is None)
    if out.exc is not None or "coef" not in seen:
        return
    ctx.cover("returned")
    d0, d1, d2, d3, d4 = seen["coef"]
    ctx.ensure("solves-x^4+C_2*x^2+C_1*x+C_0", z3.And(rterm(d0) == C0.t, rterm(d1) == C1.t, rterm(d2) == C2.t, z3.BoolVal(float(d3) == 0.0 and float(d4) == 1.0)))
    r = rterm(out.value)
    ctx.ensure("result>=each-reported-value", z3.And(*[r >= v.t for v in vals]))
    ctx.ensure("result-is-one-of-the-reported-values", z3.Or(*[r == v.t for v in vals]))


contract("C06", FILE, "DirectSolve", lang="c", replay="rmsd", covers=["returned"], max_paths=50)(direct_solve)


# =====================================================================================================
# msd_atom_major for EVERY atom count: loop invariant over the partial sums (spec functions defined by their recurrence)
PSN = z3.Function("PSN", z3.IntSort(), z3.IntSort(), z3.IntSort(), z3.IntSort(), z3.RealSort())  # (i, j, lane, blocks done) -> partial sum


def msd_atom_major_all_n(ctx, case):
    """n = 4q + r atoms, q symbolic, r in {0,1,2,3}: the block loop is cut at the invariant
           lane l of accumulator (i,j) after K blocks  =  PSN(i,j,l,K),    PSN(.,0) = 0,  PSN(i,j,l,K+1) = PSN(i,j,l,K) + a[3(4K+l)+i] * b[3(4K+l)+j]
       (full blocks, loaded by the deinterleaving loads), pointers a0+12K / b0+12K; the LAST block is loaded through the tail masks: lane l gets
       atom 4(niters-1)+(3-l) if that atom exists, else 0.  After the horizontal-add epilogue
           M[3i+j] = sum_l PSN(i,j,l,niters-1) + sum_l TAIL(i,j,l)  =  sum over all atoms below n of a[atom][i]*b[atom][j]   (the sum defined by this recurrence),
       every read stays below 3n, and G_a, G_b, n, the rotation request reach msdFromMandG."""
    from mdvc.cinterp import CLoopSpec, FV

    r = case
    ex = ctx.ex
    c = ctx.load_c(FILE, ["msd_atom_major", "aos_deinterleaved_loadu"], **INC)
    A, B, rot = Region("a"), Region("b"), Region("rot")
    A.mem0, B.mem0 = A.mem, B.mem
    Ga, Gb = ctx.real("G_a"), ctx.real("G_b")
    q = ctx.int("q")
    ctx.assume(q >= 0, 4 * q.t + r >= 1)
    n = SInt(4 * q.t + r)
    NIT = q.t + (1 if r else 0)  # number of blocks
    calls = []

    def msd_model(interp, args):
        Mp = args[0]
        calls.append(dict(M=[Mp.region.read(Mp.off + k) for k in range(9)], Ga=args[1], Gb=args[2], n=args[3], rot=args[4], rotp=args[5]))
        return SReal(z3.Real("msd_result"))
    c.call_models["msdFromMandG"] = msd_model
    ACC = {"xx": (0, 0), "xy": (0, 1), "xz": (0, 2), "yx": (1, 0), "yy": (1, 1), "yz": (1, 2), "zx": (2, 0), "zy": (2, 1), "zz": (2, 2)}
    K = ctx.int("K")
    a_at = lambda atom, i: z3.Select(A.mem0, 3 * atom + i)
    b_at = lambda atom, j: z3.Select(B.mem0, 3 * atom + j)

    def tail(i, j, lane):
        atom_in_block = 3 - lane  # _mm_set_ps puts its first argument into the highest lane
        exists = (r == 0) or (atom_in_block < r)
        atom = 4 * (NIT - 1) + atom_in_block
        return a_at(atom, i) * b_at(atom, j) if exists else z3.RealVal(0)

    def lane_spec(i, j, lane, k):
        return z3.If(k < NIT, PSN(i, j, lane, k), PSN(i, j, lane, NIT - 1) + tail(i, j, lane))

    def havoc(interp, env, g):
        interp.setvar(env, "k", K)
        interp.setvar(env, "a", Ptr(A, SInt(12 * K.t)))
        interp.setvar(env, "b", Ptr(B, SInt(12 * K.t)))
        for name, (i, j) in ACC.items():
            interp.setvar(env, name, FV([SReal(lane_spec(i, j, lane, K.t)) for lane in range(4)]))
        A.reads.clear()
        B.reads.clear()
        # recurrence of the spec function at the arbitrary block (its definition, instantiated), and its base case
        out = [K.t >= 0]
        for (i, j) in ACC.values():
            for lane in range(4):
                out.append(PSN(i, j, lane, 0) == 0)
                out.append(PSN(i, j, lane, K.t + 1) == PSN(i, j, lane, K.t) + a_at(4 * K.t + lane, i) * b_at(4 * K.t + lane, j))
        return out

    def inv(interp, env, g):
        k = term(interp.getvar(env, "k"))
        nit = term(interp.getvar(env, "niters"))
        pa, pb = interp.getvar(env, "a"), interp.getvar(env, "b")
        out = [("niters=number-of-blocks(ceil(n/4))", nit == NIT), ("0<=k<=niters", z3.And(k >= 0, k <= NIT)),
               ("a=a0+12k", z3.And(z3.BoolVal(isinstance(pa, Ptr) and pa.region is A), term(pa.off) == 12 * k) if isinstance(pa, Ptr) else z3.BoolVal(False)),
               ("b=b0+12k", z3.And(z3.BoolVal(isinstance(pb, Ptr) and pb.region is B), term(pb.off) == 12 * k) if isinstance(pb, Ptr) else z3.BoolVal(False))]
        if g.get("entry"):
            ex.assume(z3.And(*[PSN(i, j, lane, 0) == 0 for (i, j) in ACC.values() for lane in range(4)]))
        for name, (i, j) in ACC.items():
            fv = interp.getvar(env, name)
            out.append((f"accumulator-{name}:lane-l=partial-sum-over-the-blocks-done(last-block-through-the-tail-masks)",
                        z3.And(*[rterm(fv.v[lane]) == lane_spec(i, j, lane, k) for lane in range(4)])))
        return out

    def at_end(interp, env, g):
        for reg, nm in ((A, "a"), (B, "b")):
            for t in reg.reads:
                ex.require(f"block:every-read-of-{nm}-stays-below-3n", z3.And(t >= 0, t < 3 * n.t))
    c.loop_specs[("msd_atom_major", 0)] = CLoopSpec(havoc, inv, at_end=at_end)
    out = ctx.ccall("msd_atom_major", n, SInt(4 * NIT), Ptr(A, 0), Ptr(B, 0), Ga, Gb, 1, Ptr(rot, 0))
    ctx.ensure("returns-normally", out.exc is None)
    if out.exc is not None:
        return
    ctx.cover("returned")
    ctx.ensure("msdFromMandG-called-once-and-its-result-returned", len(calls) == 1 and rterm(out.value) == z3.Real("msd_result"))
    if len(calls) != 1:
        return
    k = calls[0]
    ctx.ensure("G_a,G_b,atom-count,rotation-request-passed-through", z3.And(rterm(k["Ga"]) == rterm(Ga), rterm(k["Gb"]) == rterm(Gb), core.term(k["n"]) == n.t,
                                                                            z3.BoolVal(bool(k["rot"]) and k["rotp"].region is rot)))
    for (i, j) in ACC.values():
        want = sum(PSN(i, j, lane, NIT - 1) + tail(i, j, lane) for lane in range(4))
        ctx.ensure(f"M[{3 * i + j}]=sum-over-all-atoms-of-a[atom][{i}]*b[atom][{j}](partial-sum-recurrence-at-niters-1,plus-the-masked-last-block)", rterm(k["M"][3 * i + j]) == want)


contract("C06", FILE, "msd_atom_major(every-atom-count)", cases=[0, 1, 2, 3], lang="c", replay="rmsd", covers=["returned"], max_paths=100)(msd_atom_major_all_n)


# =====================================================================================================
# rot_atom_major for EVERY atom count
def rot_atom_major_all_n(ctx, case):
    """n = 4q + r atoms (q symbolic): the block loop rotates the conformation IN PLACE, four atoms per iteration; it is cut at the invariant
           memory of a  =  (t < 12K ? ROT(t) : a0[t])      for every index t,    pointer a0 + 12K,
       where ROT(3*atom + j) = sum_i a0[3*atom + i] * rot[3i + j] (definition instantiated at the atoms of the arbitrary block and at the probe atom);
       the scalar epilogue handles the r remaining atoms.  Result: EVERY atom below n is replaced by x.R, nothing at or beyond 3n is written, the matrix is not
       written.  (The universally quantified statements are proved for an arbitrary probe index / probe atom.)"""
    from mdvc.cinterp import CLoopSpec

    r = case
    ex = ctx.ex
    c = ctx.load_c("mdtraj/rmsd/src/rotation.cpp", ["rot_atom_major", "aos_deinterleaved_loadu", "aos_interleaved_storeu", "_mm_add3_ps"], **INC)
    A, Rm = Region("a"), Region("rot")
    A.mem0, Rm.mem0 = A.mem, Rm.mem
    q = ctx.int("q")
    ctx.assume(q >= 0, 4 * q.t + r >= 1)
    n = SInt(4 * q.t + r)
    ROT = z3.Function("ROT", z3.IntSort(), z3.RealSort())
    rot_def = lambda atom: z3.And(*[ROT(3 * atom + j) == sum(z3.Select(A.mem0, 3 * atom + i) * z3.Select(Rm.mem0, 3 * i + j) for i in range(3)) for j in range(3)])
    K, T, PA = ctx.int("K"), ctx.int("probe_index"), ctx.int("probe_atom")
    ctx.assume(T >= 0)
    t_ = z3.Int("t!")

    def havoc(interp, env, g):
        interp.setvar(env, "k", K)
        interp.setvar(env, "a", Ptr(A, SInt(12 * K.t)))
        A.mem = z3.Lambda([t_], z3.If(t_ < 12 * K.t, ROT(t_), z3.Select(A.mem0, t_)))
        A.writes.clear()
        return [K.t >= 0] + [rot_def(4 * K.t + l) for l in range(4)]

    def inv(interp, env, g):
        k = term(interp.getvar(env, "k"))
        pa = interp.getvar(env, "a")
        nit = term(interp.getvar(env, "n_iters"))
        return [("n_iters=number-of-full-blocks", nit == q.t), ("0<=k<=n_iters", z3.And(k >= 0, k <= q.t)),
                ("a=a0+12k", z3.And(z3.BoolVal(isinstance(pa, Ptr) and pa.region is A), term(pa.off) == 12 * k) if isinstance(pa, Ptr) else z3.BoolVal(False)),
                ("memory:rotated-below-12k,untouched-from-12k-on(probe-index)", z3.Select(A.mem, T.t) == z3.If(T.t < 12 * k, ROT(T.t), z3.Select(A.mem0, T.t)))]

    def exit_state(interp, env, g):
        interp.setvar(env, "k", SInt(q.t))
    c.loop_specs[("rot_atom_major", 0)] = CLoopSpec(havoc, inv, exit_state=exit_state)
    out = ctx.ccall("rot_atom_major", n, Ptr(A, 0), Ptr(Rm, 0))
    ctx.ensure("returns-normally", out.exc is None)
    if out.exc is not None:
        return
    ctx.cover("returned")
    ctx.assume(rot_def(PA.t), *[rot_def(4 * q.t + l) for l in range(r)])
    for j in range(3):
        ctx.ensure(f"every-atom-below-n:x'[{j}]=sum_i-x[i]*rot[3i+{j}](probe-atom)", z3.Implies(z3.And(PA.t >= 0, PA.t < n.t),
                   z3.Select(A.mem, 3 * PA.t + j) == sum(z3.Select(A.mem0, 3 * PA.t + i) * z3.Select(Rm.mem0, 3 * i + j) for i in range(3))))
    ctx.ensure("nothing-at-or-beyond-3n-is-changed(probe-index)", z3.Implies(T.t >= 3 * n.t, z3.Select(A.mem, T.t) == z3.Select(A.mem0, T.t)))
    ctx.ensure("rotation-matrix-not-written", not Rm.writes)


contract("C06", "mdtraj/rmsd/src/rotation_sse.h", "rot_atom_major(every-atom-count)", cases=[0, 1, 2, 3], lang="c", replay="rmsd", covers=["returned"], max_paths=100)(rot_atom_major_all_n)


# =====================================================================================================
# inplace_center_and_trace_atom_major for EVERY atom count
def center_and_trace_all_n(ctx, case):
    """n = 4q + r atoms (q symbolic), one frame (the frames are independent: contract above, 2 frames): the summing block loop is cut at
           lane0 + lane1 of the double accumulator of coordinate d  =  TOT(d, 4K),    TOT(d,0) = 0, TOT(d,m+1) = TOT(d,m) + x0[3m+d],
       the in-place subtracting block loop at
           memory = (t < 12K ? CEN(t) : x0[t]) for every t,  lane0 + lane1 of the trace accumulator = TR(4K),
       with CEN(3a+d) = x0[3a+d] - mu_d and TR(m+1) = TR(m) + sum_d (x0[3m+d] - mu_d)^2 (definitions instantiated at the atoms of the arbitrary
       block, the r tail atoms and the probe atom).  At the entry of the second loop the code's own quotient satisfies mu_d * n = TOT(d, n) (the shift is the
       mean of THIS frame over ALL its atoms; from there on the shift is cut to an arbitrary number with that property).  Result: every atom
       below n becomes x - mu, traces[0] = TR(n), nothing at or beyond 3n and no other trace slot is written, every read stays below 3n."""
    from mdvc.cinterp import CLoopSpec, FV

    r = case
    ex = ctx.ex
    c = ctx.load_c("mdtraj/rmsd/src/center.cpp", ["inplace_center_and_trace_atom_major", "aos_deinterleaved_loadu", "aos_interleaved_storeu"], **INC)
    X, T = Region("coords"), Region("traces")
    X.mem0, T.mem0 = X.mem, T.mem
    q = ctx.int("q")
    ctx.assume(q >= 0, 4 * q.t + r >= 1)
    n = SInt(4 * q.t + r)
    TOT = z3.Function("TOT", z3.IntSort(), z3.IntSort(), z3.RealSort())
    TR = z3.Function("TR", z3.IntSort(), z3.RealSort())
    CEN = z3.Function("CEN", z3.IntSort(), z3.RealSort())
    x0 = lambda atom, d: z3.Select(X.mem0, 3 * atom + d)
    K1, K2, PI, PA = ctx.int("K1"), ctx.int("K2"), ctx.int("probe_index"), ctx.int("probe_atom")
    ctx.assume(PI >= 0)
    t_ = z3.Int("t!")
    SUMS, MUV = ("sx_", "sy_", "sz_"), ("sxf", "syf", "szf")
    MU = {}
    tot_step = lambda atom: [TOT(d, atom + 1) == TOT(d, atom) + x0(atom, d) for d in range(3)]
    cen_def = lambda atom: [CEN(3 * atom + d) == x0(atom, d) - MU[d] for d in range(3)]
    SQS = z3.Function("SQS", z3.IntSort(), z3.RealSort())  # squared centred norm of an atom: opaque in the recurrence of TR, revealed where the code computes it
    sq_of = lambda atom: sum((x0(atom, d) - MU[d]) * (x0(atom, d) - MU[d]) for d in range(3))
    tr_step = lambda atom: [TR(atom + 1) == TR(atom) + SQS(atom)]
    sq_def = lambda atom: [SQS(atom) == sq_of(atom)]
    TL = []
    in_x = lambda p: z3.BoolVal(isinstance(p, Ptr) and p.region is X)

    def havoc1(interp, env, g):
        interp.setvar(env, "i", K1)
        interp.setvar(env, "confp", Ptr(X, SInt(12 * K1.t)))
        out = [K1.t >= 0] + [TOT(d, 0) == 0 for d in range(3)]
        for d, nm in enumerate(SUMS):
            l0, l1 = ctx.real(f"{nm}lane0"), ctx.real(f"{nm}lane1")
            interp.setvar(env, nm, FV([l0, l1, 0.0, 0.0]))
            out.append(rterm(l0) + rterm(l1) == TOT(d, 4 * K1.t))
        for l in range(4):
            out += tot_step(4 * K1.t + l)
        X.reads.clear()
        return out

    def inv1(interp, env, g):
        i = term(interp.getvar(env, "i"))
        p = interp.getvar(env, "confp")
        if g.get("entry"):
            ex.assume(z3.And(*[TOT(d, 0) == 0 for d in range(3)]))
        out = [("0<=i<=n/4", z3.And(i >= 0, i <= q.t)), ("confp=frame+12i", z3.And(in_x(p), term(p.off) == 12 * i) if isinstance(p, Ptr) else z3.BoolVal(False))]
        for d, nm in enumerate(SUMS):
            fv = interp.getvar(env, nm)
            out.append((f"{nm}:lane0+lane1=sum-of-coordinate-{d}-over-the-atoms-of-the-blocks-done", rterm(fv.v[0]) + rterm(fv.v[1]) == TOT(d, 4 * i)))
        return out

    def reads_ok(interp, env, g):
        for t in X.reads:
            ex.require("block:every-read-stays-below-3n", z3.And(t >= 0, t < 3 * n.t))

    MUL = ("mux_", "muy_", "muz_")

    def havoc2(interp, env, g):
        # cut: the shift is from here on an arbitrary number with  shift * n = TOT(d, n)  (asserted at loop entry on the code's own quotient, see inv2);
        # the quotient term itself is forgotten, which keeps the division out of every later query
        for d, nm in enumerate(MUV):
            m = ctx.real(f"shift{d}")
            MU[d] = rterm(m)
            interp.setvar(env, nm, m)
            interp.setvar(env, MUL[d], FV([m, m, m, m]))
        interp.setvar(env, "i", K2)
        interp.setvar(env, "confp", Ptr(X, SInt(12 * K2.t)))
        l0, l1 = ctx.real("trace_lane0"), ctx.real("trace_lane1")
        interp.setvar(env, "trace_", FV([l0, l1, 0.0, 0.0]))
        TL[:] = [rterm(l0), rterm(l1)]
        X.mem = z3.Lambda([t_], z3.If(t_ < 12 * K2.t, CEN(t_), z3.Select(X.mem0, t_)))
        X.writes.clear()
        X.reads.clear()
        out = [K2.t >= 0, TR(0) == 0, rterm(l0) + rterm(l1) == TR(4 * K2.t)]
        for l in range(4):
            out += cen_def(4 * K2.t + l) + tr_step(4 * K2.t + l) + sq_def(4 * K2.t + l)
        return out

    def inv2(interp, env, g):
        i = term(interp.getvar(env, "i"))
        p = interp.getvar(env, "confp")
        fv = interp.getvar(env, "trace_")
        if g.get("entry"):
            ex.assume(TR(0) == 0)
            for l in range(r):
                ex.assume(z3.And(*tot_step(4 * q.t + l)))
        mean = []
        for d, nm in enumerate(MUV if g.get("entry") else ()):  # the shift is not assigned in the loop (auto-havoc would poison it otherwise): entry only
            m = rterm(interp.getvar(env, nm))
            mean.append((f"shift[{d}]*n=sum-of-coordinate-{d}-over-all-atoms-of-the-frame(mean)", m * z3.ToReal(n.t) == TOT(d, n.t)))
            mean.append((f"{MUL[d]}:all-four-lanes-hold-shift[{d}]", z3.And(*[rterm(interp.getvar(env, MUL[d]).v[lane]) == m for lane in range(4)])))
        return mean + [("0<=i<=n/4", z3.And(i >= 0, i <= q.t)), ("confp=frame+12i", z3.And(in_x(p), term(p.off) == 12 * i) if isinstance(p, Ptr) else z3.BoolVal(False)),
                ("trace:lane0+lane1=sum-of-squared-centred-coordinates-of-the-blocks-done", rterm(fv.v[0]) + rterm(fv.v[1]) == TR(4 * i)),
                ("memory:centred-below-12i,untouched-from-12i-on(probe-index)", z3.Select(X.mem, PI.t) == z3.If(PI.t < 12 * i, CEN(PI.t), z3.Select(X.mem0, PI.t)))]

    def exit1(interp, env, g):
        interp.setvar(env, "i", SInt(q.t))
    c.loop_specs[("inplace_center_and_trace_atom_major", 1)] = CLoopSpec(havoc1, inv1, at_end=reads_ok, exit_state=exit1)
    c.loop_specs[("inplace_center_and_trace_atom_major", 3)] = CLoopSpec(havoc2, inv2, at_end=reads_ok, exit_state=exit1)
    out = ctx.ccall("inplace_center_and_trace_atom_major", Ptr(X, 0), Ptr(T, 0), 1, n)
    ctx.ensure("returns-normally", out.exc is None)
    if out.exc is not None:
        return
    ctx.cover("returned")
    ctx.ensure("both-block-loops-met-their-contracts", len(MU) == 3)
    if len(MU) != 3:
        return
    for l in range(r):
        ctx.assume(*(cen_def(4 * q.t + l) + tr_step(4 * q.t + l)))
    ctx.assume(*cen_def(PA.t))
    for d in range(3):
        ctx.ensure(f"every-atom-below-n:x'[{d}]=x[{d}]-mean[{d}](probe-atom)", z3.Implies(z3.And(PA.t >= 0, PA.t < n.t), z3.Select(X.mem, 3 * PA.t + d) == x0(PA.t, d) - MU[d]))
    # traces[0] = TR(n) in two steps: (a) the stored value (rewritten by z3.simplify, equivalence preserving: reads of the just-written tail cells are resolved
    # through the store chain) is, as a POLYNOMIAL IDENTITY decided by sympy, the block loop's lane sum plus the squared centred norms of the r tail atoms;
    # (b) with SQS revealed at those atoms (its definition), lane sum + SQS of the tail atoms = TR(n) by the recurrence of TR - a linear obligation
    def resolve(e):
        """equivalence-preserving rewriting: a read through a store chain / the lambda memory is resolved wherever z3.simplify decides the index comparison"""
        if z3.is_app(e) and e.decl().kind() == z3.Z3_OP_SELECT:
            arr, idx = e.arg(0), resolve(e.arg(1))
            while True:
                if z3.is_app(arr) and arr.decl().kind() == z3.Z3_OP_STORE:
                    eq = z3.simplify(arr.arg(1) == idx)
                    if z3.is_true(eq):
                        return resolve(arr.arg(2))
                    if z3.is_false(eq):
                        arr = arr.arg(0)
                        continue
                elif z3.is_quantifier(arr) and arr.is_lambda():
                    return resolve(z3.simplify(z3.substitute_vars(arr.body(), idx)))
                break
            return z3.Select(arr, idx)
        if z3.is_app(e) and e.num_args():
            return e.decl()(*[resolve(c) for c in e.children()])
        return e
    got = z3.simplify(resolve(z3.Select(T.mem, 0)))
    # on this path the block loop has ended, K2 = q is a path fact; the identity is stated over the code's own index terms (12*K2 + ...)
    want = TL[0] + TL[1] + sum(sq_of(4 * K2.t + l) for l in range(r))
    try:
        same = polyid.poly_equal(got, z3.simplify(want))
    except ValueError:
        same = False
    if os.environ.get("C06_DEBUG"):
        print("GOT", got, "\nWANT", z3.simplify(want), file=sys.stderr)
    ctx.ensure("traces[0]=lane-sum-of-the-block-loop+squared-centred-norms-of-the-tail-atoms(polynomial-identity)", same, kind="lemma-poly")
    ctx.ensure("traces[0]=sum-over-all-atoms-of-squared-centred-coordinates(recurrence-of-TR-over-the-tail)", TL[0] + TL[1] + sum(SQS(4 * K2.t + l) for l in range(r)) == TR(n.t))
    ctx.ensure("nothing-at-or-beyond-3n-is-changed(probe-index)", z3.Implies(PI.t >= 3 * n.t, z3.Select(X.mem, PI.t) == z3.Select(X.mem0, PI.t)))
    ctx.ensure("only-trace-slot-0-written", all(z3.is_int_value(z3.simplify(w[0])) and z3.simplify(w[0]).as_long() == 0 for w in T.writes) and len(T.writes) >= 1)
    for t in X.reads:
        ctx.ensure("tail:every-read-stays-below-3n", z3.And(t >= 0, t < 3 * n.t))


contract("C06", "mdtraj/rmsd/src/center_sse.h", "inplace_center_and_trace_atom_major(every-atom-count)", cases=[0, 1, 2, 3], lang="c", replay="rmsd", covers=["returned"],
         max_paths=100)(center_and_trace_all_n)
