"""C18 -- an open trajectory file behaves as a cursor over its frames.

Representation invariant  Rep(h):  the handle's Python-side position field equals the ghost
position `pos`, 0 <= pos <= N  (N = number of frames stored).  Every public operation is shown to
re-establish Rep with the abstract cursor's new position and to return the abstract cursor's
frames -- for symbolic N, pos, n: hence after *every finite sequence* of in-range operations.
"""
import z3

from mdvc import core, models
from mdvc.core import SInt, smin
from mdvc.models import Base, FrameSel, StoredField
from mdvc.pyinterp import ExcClass, EXC, Namespace, Obj
from mdvc.verify import contract

from . import common


# ---------------------------------------------------------------------------------------------
# HDF5TrajectoryFile  (position field: _frame_index ; data: self._handle.root.<node>)


class H5Handle:
    """Assumed contract of a PyTables file handle opened for reading: `root.<name>` and
    `get_node('/', name)` give the stored array `name` (NoSuchNodeError iff absent)."""

    def __init__(self, nodes, NoSuchNodeError):
        self.nodes = nodes
        self.exc = NoSuchNodeError
        self.root = Namespace("root", **nodes)

    def sym_getattr(self, interp, name):
        if name == "root":
            return self.root
        if name == "get_node":
            def get_node(where="/", name=None):
                if name in self.nodes:
                    return self.nodes[name]
                from mdvc.pyinterp import PyExc, ExcInst
                raise PyExc(ExcInst(self.exc, (name,)))
            return get_node
        raise core.Unsupported("H5Handle." + name)


def h5_file(ctx, N, pos, present=("coordinates", "time", "cell_lengths", "cell_angles")):
    mod = ctx.module("mdtraj/formats/hdf5.py")
    cls = mod.globals["HDF5TrajectoryFile"]
    NoSuch = ExcClass("NoSuchNodeError", [EXC["Exception"]])
    units = {"coordinates": "nanometers", "time": "picoseconds", "cell_lengths": "nanometers",
             "cell_angles": "degrees"}
    nodes = {n: StoredField(Base(n, N), units=units[n], n_atoms=SInt(z3.Int("A"))) for n in present}
    h = Obj(cls)
    h.fields.update(
        _open=True, mode="r", _frame_index=pos, _needs_initialization=False,
        _handle=H5Handle(nodes, NoSuch), tables=Namespace("tables", NoSuchNodeError=NoSuch),
    )
    return h, nodes


def cursor_inputs(ctx):
    N, pos, n = ctx.int("N"), ctx.int("pos"), ctx.int("n")
    ctx.assume(N >= 0, pos >= 0, pos <= N, n >= 1)
    return N, pos, n


def rows_are(ctx, clause, sel, base, start, count, step=1):
    """postcondition: `sel` is rows start+j*step (j<count) of `base`"""
    if not isinstance(sel, FrameSel):
        ctx.ensure(clause + ":is-frames", False)
        return
    ctx.ensure(clause + ":field", sel.base is base)
    cnt = core.term(count)
    ctx.ensure(clause + ":count", core.term(sel.count) == cnt)
    # start/step only matter when something is selected
    ctx.ensure(clause + ":start", z3.Implies(cnt > 0, core.term(sel.start) == core.term(start)))
    ctx.ensure(clause + ":step", z3.Implies(cnt > 1, core.term(sel.step) == core.term(step)))


def register_cursor(file, cls, factory, fields_of, posfield, replay, whence2=True, empty_is=None, len_ok=True):
    """Registers the read / seek / tell(+len) contracts of one array-backed file class.
    factory(ctx, N, pos) -> (handle Obj, {field: Base});  fields_of(result) -> {field: value}."""

    @contract("C18", file, f"{cls}.read", cases=["n", "rest"], covers=["returned-frames", "at-end"], replay=replay)
    def _read(ctx, case):
        N, pos, n = cursor_inputs(ctx)
        h, bases = factory(ctx, N, pos)
        if case == "n":
            out = ctx.call_method(h, "read", n_frames=n)
            expect = smin(n, N - pos)
        else:
            out = ctx.call_method(h, "read")
            expect = N - pos
        ctx.ensure("no-exception", not out.raised)
        if out.raised:
            return
        newpos = h.fields[posfield]
        ctx.ensure("position-advanced-by-frames-read", core.term(newpos) == core.term(pos + expect))
        ctx.ensure("rep:0<=pos<=N", z3.And(core.term(newpos) >= 0, core.term(newpos) <= core.term(N)))
        vals = fields_of(out.value)
        if vals is None:
            ctx.cover("at-end")
            ctx.ensure("empty-only-at-end", core.term(expect) == 0)
            return
        ctx.cover("returned-frames")
        for name, base in bases.items():
            rows_are(ctx, name, vals.get(name), base, pos, expect)

    @contract("C18", file, f"{cls}.seek", cases=["abs", "rel"] + (["end"] if whence2 else []), replay=replay)
    def _seek(ctx, case):
        N, pos, _ = cursor_inputs(ctx)
        h, _b = factory(ctx, N, pos)
        k = ctx.int("k")
        if case == "abs":
            ctx.assume(k >= 0, k <= N)
            out = ctx.call_method(h, "seek", k)
            want = k
        elif case == "rel":
            ctx.assume(pos + k >= 0, pos + k <= N)
            out = ctx.call_method(h, "seek", k, 1)
            want = pos + k
        else:
            ctx.assume(k <= 0, N + k >= 0)
            out = ctx.call_method(h, "seek", k, 2)
            want = N + k
        ctx.ensure("no-exception", not out.raised)
        if out.raised:
            return
        ctx.ensure("position", core.term(h.fields[posfield]) == core.term(want))
        t = ctx.call_method(h, "tell")
        ctx.ensure("tell-reports-position", (not t.raised) and core.term(t.value) == core.term(want))

    @contract("C18", file, f"{cls}.tell", replay=replay)
    def _tell(ctx, case):
        N, pos, _ = cursor_inputs(ctx)
        h, _b = factory(ctx, N, pos)
        t = ctx.call_method(h, "tell")
        ctx.ensure("tell==pos", (not t.raised) and core.term(t.value) == core.term(pos))
        ctx.ensure("tell-does-not-move", core.term(h.fields[posfield]) == core.term(pos))
        if len_ok:
            ln = ctx.call_method(h, "__len__")
            ctx.ensure("len==N", (not ln.raised) and core.term(ln.value) == core.term(N))
            ctx.ensure("len-does-not-move", core.term(h.fields[posfield]) == core.term(pos))


def _h5_factory(ctx, N, pos):
    h, nodes = h5_file(ctx, N, pos)
    return h, {k: v.base for k, v in nodes.items()}


def _h5_fields(res):
    if isinstance(res, list) and res == []:
        return None
    return {"coordinates": res.coordinates, "time": res.time, "cell_lengths": res.cell_lengths,
            "cell_angles": res.cell_angles}


register_cursor("mdtraj/formats/hdf5.py", "HDF5TrajectoryFile", _h5_factory, _h5_fields, "_frame_index", "cursor:h5")


# ---------------------------------------------------------------------------------------------
# NetCDFTrajectoryFile (position field: _frame_index ; data: self._handle.variables[name])


class NCHandle:
    """Assumed contract of a netCDF4.Dataset / scipy netcdf_file opened for reading:
    `variables` maps names to per-frame variables, `dimensions['atom']` is the atom count."""

    def __init__(self, variables, n_atoms):
        self.variables = variables
        self.dimensions = {"atom": n_atoms}

    def sym_getattr(self, interp, name):
        if name in ("variables", "dimensions"):
            return getattr(self, name)
        raise core.Unsupported("NCHandle." + name)


def _nc_factory(ctx, N, pos):
    mod = ctx.module("mdtraj/formats/netcdf.py")
    cls = mod.globals["NetCDFTrajectoryFile"]
    A = SInt(z3.Int("A"))
    names = ["coordinates", "time", "cell_lengths", "cell_angles"]
    variables = {n: StoredField(Base(n, N), n_atoms=A) for n in names}
    h = Obj(cls)
    h.fields.update(_closed=False, _mode="r", _frame_index=pos, _needs_initialization=False,
                    _handle=NCHandle(variables, A))
    return h, {k: v.base for k, v in variables.items()}


def _nc_fields(res):
    if isinstance(res[0], models.EmptyArr):
        return None
    return dict(zip(["coordinates", "time", "cell_lengths", "cell_angles"], res))


register_cursor("mdtraj/formats/netcdf.py", "NetCDFTrajectoryFile", _nc_factory, _nc_fields, "_frame_index", "cursor:nc")


# ---------------------------------------------------------------------------------------------
# DCD: dcd_rewind (C, dcdplugin.c) is what every backward seek of DCDTrajectoryFile goes through.
# Rep of the C handle: nsets = number of frames in the file (derived from the file size by open_dcd_read),
# setsread = position.  Rewinding must put the position at 0 and leave nsets (what len() reports) alone.
from mdvc.cinterp import AddrOf, StructObj  # noqa: E402


@contract("C18", "mdtraj/formats/dcd/src/dcdplugin.c", "dcd_rewind", lang="c", cases=["header-ok", "header-error"], replay="cursor:dcd",
          assumed=["read_dcdheader(fd, &natoms, &nsets, ...) parses the header and stores the HEADER's values through its out-pointers (the header's NSET "
                   "need not equal the number of frames in the file); fio_fseek/fio_fclose/free by their libc meaning"])
def dcd_rewind(ctx, case):
    c = ctx.load_c("mdtraj/formats/dcd/src/dcdplugin.c", ["dcd_rewind"], include=("mdtraj/formats/dcd/include", "mdtraj/formats/dcd/src"))
    N, pos, A = ctx.int("nsets"), ctx.int("setsread"), ctx.int("natoms")
    ctx.assume(N >= 0, pos >= 0, pos <= N, A >= 1)
    h = StructObj("dcdhandle", fd="fd", natoms=A, nsets=N, setsread=pos, istart=ctx.int("istart"), nsavc=ctx.int("nsavc"),
                  delta=ctx.real("delta"), nfixed=ctx.int("nfixed"), freeind="freeind", fixedcoords="fixedcoords",
                  reverse=ctx.int("reverse"), charmm=ctx.int("charmm"))
    events = []
    header_nset = ctx.int("header_NSET")  # whatever the header says: unrelated to N

    def read_dcdheader(interp, args):
        events.append("read_dcdheader")
        fd, natoms, nsets, istart, nsavc, delta, nfixed, freeind, fixedcoords, reverse, charmm = args
        for ref, val in ((natoms, A), (nsets, header_nset), (istart, ctx.int("h_istart")), (nsavc, ctx.int("h_nsavc")),
                         (delta, ctx.real("h_delta")), (nfixed, ctx.int("h_nfixed")), (reverse, ctx.int("h_reverse")), (charmm, ctx.int("h_charmm"))):
            ref.write(0, val) if isinstance(ref, AddrOf) else ref.region.write(ref.off, val)
        return 0 if case == "header-ok" else -1

    c.call_models["read_dcdheader"] = read_dcdheader
    c.call_models["fio_fseek"] = lambda i, a: events.append(("seek", a[1], a[2])) or 0
    c.call_models["fio_fclose"] = lambda i, a: events.append("close") or 0
    c.call_models["free"] = lambda i, a: events.append("free") or None
    out = ctx.ccall("dcd_rewind", h)
    ctx.ensure("returns-normally", out.exc is None)
    if case == "header-ok":
        ctx.ensure("returns-0", out.value == 0)
        ctx.ensure("position-reset-to-0", core.term(h.fields["setsread"]) == 0)
        ctx.ensure("frame-count-of-the-handle-unchanged(len)", core.term(h.fields["nsets"]) == core.term(N))
        ctx.ensure("file-repositioned-to-the-start-before-the-header-is-parsed", bool(events) and events[0] == ("seek", 0, 0) and "read_dcdheader" in events)
    else:
        ctx.ensure("error-is-reported", out.value == -1)


# skip_dcdstep: every seek / stride / load_frame on a DCD file skips frames with it.  The number of bytes it skips must be the
# size of one frame of the DCD format for the file's flags (from the format description, not from read_dcdstep's code):
#   a Fortran record = marker + payload + marker, marker = 4 bytes (8 with 64-bit record markers);
#   [CHARMM and extra block: one record of 48 bytes (unit cell)]  X, Y, Z: one record of 4*(natoms - nfixed) bytes each
#   [CHARMM and 4 dimensions: a fourth record of the same size]
FLAGS = [(ch, d4, ex, r64) for ch in (0, 1) for d4 in (0, 1) for ex in (0, 1) for r64 in (0, 1)]


@contract("C18", "mdtraj/formats/dcd/src/dcdplugin.c", "skip_dcdstep", lang="c", cases=FLAGS, replay="cursor:dcd", covers=["skipped"])
def skip_dcdstep(ctx, case):
    ch, d4, exb, r64 = case
    c = ctx.load_c("mdtraj/formats/dcd/src/dcdplugin.c", ["skip_dcdstep"], include=("mdtraj/formats/dcd/include", "mdtraj/formats/dcd/src"))
    natoms, nfixed = ctx.int("natoms"), ctx.int("nfixed")
    ctx.assume(natoms >= 1, nfixed >= 0, nfixed < natoms)
    seeks = []
    c.call_models["fio_fseek"] = lambda i, a: seeks.append((a[1], a[2])) or 0
    flags = ch * 0x01 + d4 * 0x02 + exb * 0x04 + r64 * 0x08
    out = ctx.ccall("skip_dcdstep", "fd", natoms, nfixed, flags)
    ctx.ensure("returns-normally", out.exc is None)
    ctx.cover("skipped")
    ctx.ensure("one-relative-seek", len(seeks) == 1)
    if len(seeks) != 1:
        return
    marker = 8 if r64 else 4
    rec = lambda payload: marker + payload + marker
    coord = rec(4 * (core.term(natoms) - core.term(nfixed)))
    want = 3 * coord + (rec(48) if (ch and exb) else 0) + (coord if (ch and d4) else 0)
    ctx.ensure("bytes-skipped=size-of-one-frame-for-these-flags", core.term(seeks[0][0]) == want)
    whence = seeks[0][1]
    ctx.ensure("seek-is-relative-to-the-current-position", isinstance(whence, int) and whence == 1 or str(whence).endswith("FIO_SEEK_CUR") or whence == ("enum", "FIO_SEEK_CUR"))
    ctx.ensure("returns-success", out.value == 0)
