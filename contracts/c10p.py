"""C10 -- Voxels::getNeighbors with an ORTHORHOMBIC periodic cell, all atoms inside the primary cell [0,Lx) x [0,Ly) x [0,Lz).

Same abstract view of the bins as contracts/c10v.py, plus "every stored x lies in [0, Lx)".  Symbolic grid, atom count, coordinates,
cell edges and cutoff (cutoff <= half of every edge).  For an ARBITRARY atom j < i whose minimum-image distance to atom i (integer
image witnesses kx, ky, kz) is below the cutoff, j is appended (completeness): the wrapped voxel walk reaches j's voxel exactly once,
one of the two x ranges brackets j's slot, the wrapped distance test accepts it; every appended atom has a smaller index and a
minimum-image distance within the cutoff (soundness).  The known findings of C10 lie OUTSIDE these preconditions (atoms outside the
primary cell, triclinic cells).
Stated arithmetic fact used as a hypothesis: a window of n consecutive integers contains exactly one representative of each residue
class modulo n (division algorithm) -- it defines the iteration of the voxel walk that meets j's voxel.
"""
import z3

from mdvc import core
from mdvc.cinterp import CLoopSpec, Ptr, Region, StructObj
from mdvc.core import SInt, SReal, rterm, term
from mdvc.verify import contract

from .c10v import BINA, BINSIZE, BINX, FILE, INC, Neighbors, sorted_all, voxels


def get_neighbors_ortho(ctx, case):
    ex = ctx.ex
    c = ctx.load_c(FILE, ["_compute_neighborlist"], **INC)
    ctx.load_records(FILE, ["Voxels", "VoxelIndex"], include=INC["include"])
    xyz = Region("atomLocations")
    Lx, Ly, Lz = ctx.real("Lx"), ctx.real("Ly"), ctx.real("Lz")
    L = [Lx, Ly, Lz]
    box, bsz, rsz = Region("periodicBoxVectors"), Region("periodicBoxSize"), Region("recipBoxSize")
    box.local = [Lx, 0.0, 0.0, 0.0, Ly, 0.0, 0.0, 0.0, Lz]
    bsz.local = [Lx, Ly, Lz]
    rsz.local = [1 / Lx, 1 / Ly, 1 / Lz]
    I, J, d = ctx.int("i"), ctx.int("j"), ctx.real("maxDistance")
    vy, vz, ny, nz = ctx.real("voxelSizeY"), ctx.real("voxelSizeZ"), ctx.int("ny"), ctx.int("nz")
    P = lambda a, k: z3.Select(xyz.mem, 3 * a + k)
    YI, ZI, YJ, ZJ, S = ctx.int("Yi"), ctx.int("Zi"), ctx.int("Yj"), ctx.int("Zj"), ctx.int("slot_j")
    ctx.assume(d > 0, Lx > 0, Ly > 0, Lz > 0, 2 * d <= Lx, 2 * d <= Ly, 2 * d <= Lz, vy > 0, vz > 0, ny >= 1, nz >= 1, I >= 0, J >= 0, J < I)
    # constructor (periodic): the voxels tile the cell exactly
    ctx.assume(z3.ToReal(ny.t) * vy.t == Ly.t, z3.ToReal(nz.t) * vz.t == Lz.t)

    def in_cell_and_voxel(a, Y, Z):
        return z3.And(*[z3.And(P(a, k) >= 0, P(a, k) < L[k].t) for k in range(3)], 0 <= Y.t, Y.t < ny.t, 0 <= Z.t, Z.t < nz.t,
                      z3.ToReal(Y.t) * vy.t <= P(a, 1), P(a, 1) < (z3.ToReal(Y.t) + 1) * vy.t, z3.ToReal(Z.t) * vz.t <= P(a, 2), P(a, 2) < (z3.ToReal(Z.t) + 1) * vz.t)
    ctx.assume(in_cell_and_voxel(I.t, YI, ZI), in_cell_and_voxel(J.t, YJ, ZJ))
    ctx.assume(0 <= S.t, S.t < BINSIZE(YJ.t, ZJ.t), BINA(YJ.t, ZJ.t, S.t) == J.t, BINX(YJ.t, ZJ.t, S.t) == P(J.t, 0))
    yy, zz, kk = z3.Ints("y! z! k!")
    ctx.assume(z3.ForAll([yy, zz, kk], z3.Implies(z3.And(0 <= kk, kk < BINSIZE(yy, zz)), z3.And(BINX(yy, zz, kk) >= 0, BINX(yy, zz, kk) < Lx.t))))
    # minimum image of j relative to i: integer witnesses, components in the centred cell
    K = [ctx.int(f"k{a}") for a in "xyz"]
    M = [P(J.t, k) - P(I.t, k) - z3.ToReal(K[k].t) * L[k].t for k in range(3)]
    ctx.assume(*[z3.And(2 * M[k] <= L[k].t, -2 * M[k] <= L[k].t, K[k].t >= -1, K[k].t <= 1) for k in range(3)])
    within = sum(m * m for m in M) < d.t * d.t

    def on_push(index):
        k = term(index)
        ex.require("soundness:a-reported-atom-has-a-smaller-index(no-duplicates,not-itself)", k < I.t)
    nb = Neighbors(ex, J, on_push)
    v = voxels(c, voxelSizeY=vy, voxelSizeZ=vz, miny=ctx.real("miny"), minz=ctx.real("minz"), ny=ny, nz=nz, periodicBoxSize=Ptr(bsz, 0), recipBoxSize=Ptr(rsz, 0), triclinic=False,
               periodicBoxVectors=Ptr(box, 0), usePeriodic=True)
    avi = StructObj("VoxelIndex", y=YI, z=ZI)
    avi.record = "VoxelIndex"

    def bound_model(which):
        def model(interp, args):
            _, y, z, x, lo, up = args
            y, z, x, lo, up = term(y), term(z), rterm(x), term(lo), term(up)
            ex.require(f"call:{which}:window-inside-the-bin", z3.And(0 <= lo, lo <= up, up <= BINSIZE(y, z)))
            r = z3.Int(core.fresh_name(which))
            k = z3.Int("k!")
            before = (BINX(y, z, k) < x) if which == "findLowerBound" else (BINX(y, z, k) <= x)
            after = (BINX(y, z, k) >= x) if which == "findLowerBound" else (BINX(y, z, k) > x)
            ex.assume(z3.And(lo <= r, r <= up, z3.ForAll([k], z3.Implies(z3.And(lo <= k, k < r), before)), z3.ForAll([k], z3.Implies(z3.And(r <= k, k < up), after))))
            return SInt(r)
        return model
    c.call_models["Voxels::findLowerBound"] = bound_model("findLowerBound")
    c.call_models["Voxels::findUpperBound"] = bound_model("findUpperBound")

    entry = {}
    QZ, QY = ctx.int("qz"), ctx.int("qy")
    ZS, YS = ZJ.t + nz.t * QZ.t, YJ.t + ny.t * QY.t  # the walk index that meets j's voxel layer / row

    def fresh_found(tag):
        nb.found = z3.Bool(core.fresh_name("found@" + tag))

    def mono(tag, gh):
        if gh.get("entry"):
            entry[tag] = nb.found
            return []
        return [("already-found-stays-found", z3.Implies(entry[tag], nb.found))]

    def z_havoc(interp, env, gh):
        fresh_found("z")
        vi = interp.getvar(env, "voxelIndex")
        vi.fields["y"], vi.fields["z"] = SInt(z3.Int(core.fresh_name("vi.y"))), SInt(z3.Int(core.fresh_name("vi.z")))
        return []

    def z_inv(interp, env, gh):
        z, sz = term(interp.getvar(env, "z")), term(interp.getvar(env, "startz"))
        if gh.get("entry"):
            ex.assume(z3.And(sz <= ZS, ZS <= sz + nz.t - 1))  # definition of qz (division algorithm)
        return mono("z", gh) + [("the-layer-of-j's-voxel-is-done-once-z-has-passed-it", z3.Implies(z3.And(within, ZS < z), nb.found)), ("z>=startz", z >= sz)]

    def y_havoc(interp, env, gh):
        fresh_found("y")
        vi = interp.getvar(env, "voxelIndex")
        vi.fields["y"] = SInt(z3.Int(core.fresh_name("vi.y")))
        return []

    def y_inv(interp, env, gh):
        z, y, sy = term(interp.getvar(env, "z")), term(interp.getvar(env, "y")), term(interp.getvar(env, "starty"))
        if gh.get("entry"):
            ex.assume(z3.And(sy <= YS, YS <= sy + ny.t - 1))  # definition of qy (division algorithm); starty does not depend on z in a rectangular cell
        return mono("y", gh) + [("the-row-of-j's-voxel-is-done-once-y-has-passed-it", z3.Implies(z3.And(within, z == ZS, YS < y), nb.found)), ("y>=starty", y >= sy)]

    def i_havoc(interp, env, gh):
        fresh_found("item")
        return []

    def i_inv(interp, env, gh):
        z, y, item = term(interp.getvar(env, "z")), term(interp.getvar(env, "y")), term(interp.getvar(env, "item"))
        rng = interp.getvar(env, "range")
        rs = interp.getvar(env, "rangeStart").region.local[rng]
        return mono("item", gh) + [("slots-of-this-range-before-item-are-done", z3.Implies(z3.And(within, z == ZS, y == YS, term(rs) <= S.t, S.t < item), nb.found)),
                                   ("item>=rangeStart", item >= term(rs))]

    c.loop_specs[("Voxels::getNeighbors", 0)] = CLoopSpec(z_havoc, z_inv)
    c.loop_specs[("Voxels::getNeighbors", 1)] = CLoopSpec(y_havoc, y_inv)
    c.loop_specs[("Voxels::getNeighbors", 3)] = CLoopSpec(i_havoc, i_inv)

    def decl_hook(interp, env, name, val):
        if name == "dSquared":
            # assert-then-assume: the value compared with the cutoff is the squared minimum-image distance between atom `index` and the centre atom
            k = term(interp.getvar(env, "index"))
            ws = ex.path.ghost.get("round_witness", [])
            ex.path.tags["dsq"] = True
        return val
    c.decl_hook = decl_hook
    ctx.assume(sorted_all())
    c.call_record_method(v, "getNeighbors", [nb, I, d, Ptr(xyz, 0), avi])
    ctx.cover("returned")
    ctx.ensure("completeness:atom-j-within-the-cutoff(minimum-image)is-reported", z3.Implies(within, nb.found))


contract("C10", FILE, "Voxels::getNeighbors(orthorhombic-cell,atoms-inside)", lang="c", replay="neighborlist", covers=["returned"], max_paths=400)(get_neighbors_ortho)
