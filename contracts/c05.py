"""C05 -- periodic distances and displacements are true minimum-image values (C++ kernels).

The kernels of mdtraj/geometry/src are executed symbolically from clang's AST.  The frame loop and
the pair loop are cut at inductive invariants (pointer bumps: xyz = xyz0 + 3*n_atoms*i,
box = box0 + 9*i, outputs at i*n_pairs + j), so the per-pair postconditions hold for ALL frames
and pairs:
  congruence   out_k = (x_b - x_a)_k - n_k * L_k          (explicit integer witnesses: the roundf results)
  wrap bound   |out_k| <= L_k / 2
  distance     d >= 0 and d^2 = sum out_k^2
  frame        exactly the cell(s) of (i, j) written; inputs untouched
Lemma L1 (|x| <= L/2 and m integer => |x| <= |x + m L|) then gives: |out| is the minimum over all
images, for every separation (orthorhombic).
"""
import z3

from mdvc import core
from mdvc.cinterp import CLoopSpec, Ptr, Region, NULL
from mdvc.core import SInt, SReal, rterm, term
from mdvc.verify import contract

GEOM = dict(include=("mdtraj/geometry/include", "mdtraj/geometry/src/kernels", "mdtraj/geometry/src"))


def regions():
    return dict(xyz=Region("xyz"), pairs=Region("pairs", "int"), box=Region("box"), dout=Region("dout"), disp=Region("disp"),
                times=Region("times", "int"))


def sel(r, idx):
    return z3.Select(r.mem0, term(idx))


def frame_loops(ctx, c, fname, R, n_frames, n_atoms, n_pairs, store_dist, store_disp, periodic, per_pair, box_stride=9, extra_outer=None,
                inner_entry=None, inner_havoc_extra=None):
    """invariants of the (frame, pair) loop nest of the distance kernels"""
    I, J = ctx.int("I"), ctx.int("J")
    nf, na, npairs = term(n_frames), term(n_atoms), term(n_pairs)

    def set_ptrs(interp, env, i, j):
        interp.setvar(env, "xyz", Ptr(R["xyz"], SInt(z3.simplify(3 * na * term(i)))))
        if periodic:
            interp.setvar(env, "box_matrix", Ptr(R["box"], SInt(z3.simplify(box_stride * term(i)))))
        if store_dist:
            interp.setvar(env, "distance_out", Ptr(R["dout"], SInt(z3.simplify(term(i) * npairs + term(j)))))
        if store_disp:
            interp.setvar(env, "displacement_out", Ptr(R["disp"], SInt(z3.simplify(3 * (term(i) * npairs + term(j))))))

    def ptr_inv(interp, env, i, j):
        out = []

        def eq(name, region, off):
            p = interp.getvar(env, name)
            ok = isinstance(p, Ptr) and p.region is region
            out.append((name, z3.And(z3.BoolVal(ok), term(p.off) == off) if ok else z3.BoolVal(False)))
        eq("xyz", R["xyz"], 3 * na * term(i))
        if periodic:
            eq("box_matrix", R["box"], box_stride * term(i))
        if store_dist:
            eq("distance_out", R["dout"], term(i) * npairs + term(j))
        if store_disp:
            eq("displacement_out", R["disp"], 3 * (term(i) * npairs + term(j)))
        return out

    # outer loop (frames)
    def o_havoc(interp, env, g):
        interp.setvar(env, "i", I)
        set_ptrs(interp, env, I, 0)
        a = [I.t >= 0]
        if extra_outer:
            a += extra_outer(I)
        return a

    def o_inv(interp, env, g):
        i = interp.getvar(env, "i")
        return ptr_inv(interp, env, i, 0) + [("0<=i<=n_frames", z3.And(term(i) >= 0, term(i) <= nf))]

    # inner loop (pairs)
    def i_havoc(interp, env, g):
        interp.setvar(env, "j", J)
        set_ptrs(interp, env, interp.getvar(env, "i"), J)
        for r in R.values():
            r.writes.clear()
        extra = inner_havoc_extra(interp, env) if inner_havoc_extra else []
        return [J.t >= 0] + list(extra)

    def i_inv(interp, env, g):
        i, j = interp.getvar(env, "i"), interp.getvar(env, "j")
        out = ptr_inv(interp, env, i, j) + [("0<=j<=n_pairs", z3.And(term(j) >= 0, term(j) <= npairs))]
        if g.get("entry") and inner_entry:
            out += inner_entry(interp, env)
        return out

    def i_end(interp, env, g):
        per_pair(interp, env, I, J)

    def i_exit(interp, env, g):
        # after the pair loop: j == n_pairs
        interp.setvar(env, "j", SInt(npairs))
        set_ptrs(interp, env, interp.getvar(env, "i"), SInt(npairs))

    def o_exit(interp, env, g):
        interp.setvar(env, "i", SInt(nf))

    c.loop_specs[(fname, 0)] = CLoopSpec(o_havoc, o_inv, exit_state=o_exit)
    c.loop_specs[(fname, 1)] = CLoopSpec(i_havoc, i_inv, at_end=i_end, exit_state=i_exit)
    return I, J


def snapshot(R):
    for r in R.values():
        r.mem0 = r.mem


CASES = [(d, p) for d in (True, False) for p in (True, False) if d or p]


def check_writes(ctx, R, I, J, n_pairs, store_dist, store_disp, dist_val, disp_vals):
    """frame condition + values written in iteration (I, J)"""
    npairs = term(n_pairs)
    for name in ("xyz", "pairs", "box", "times"):
        ctx.ex.require(f"frame:{name}-not-written", z3.BoolVal(len(R[name].writes) == 0))
    wd, wp = R["dout"].writes, R["disp"].writes
    ctx.ex.require("frame:one-distance-cell-written-iff-requested", z3.BoolVal(len(wd) == (1 if store_dist else 0)))
    ctx.ex.require("frame:three-displacement-cells-written-iff-requested", z3.BoolVal(len(wp) == (3 if store_disp else 0)))
    if store_dist and len(wd) == 1:
        ctx.ex.require("distance-written-at-[i*n_pairs+j]", wd[0][0] == term(I) * npairs + term(J))
        dist_val(wd[0][1])
    if store_disp and len(wp) == 3:
        for k in range(3):
            ctx.ex.require(f"displacement[{k}]-written-at-[3*(i*n_pairs+j)+{k}]", wp[k][0] == 3 * (term(I) * npairs + term(J)) + k)
        disp_vals([w[1] for w in wp])


@contract("C05", "mdtraj/geometry/src/kernels/distancekernels.h", "dist_mic", cases=CASES, lang="c", replay="dist", covers=["pair-iteration", "finished"])
def dist_mic(ctx, case):
    store_dist, store_disp = case
    c = ctx.load_c("mdtraj/geometry/src/geometry.cpp", ["dist_mic"], **GEOM)
    R = regions()
    snapshot(R)
    nf, na, npairs = ctx.int("n_frames"), ctx.int("n_atoms"), ctx.int("n_pairs")
    ctx.assume(nf >= 0, na >= 1, npairs >= 0)

    def L(i, k):
        return sel(R["box"], 9 * term(i) + 4 * k)

    def per_pair(interp, env, I, J):
        ctx.cover("pair-iteration")
        a = sel(R["pairs"], 2 * term(J))
        b = sel(R["pairs"], 2 * term(J) + 1)
        base = 3 * term(na) * term(I)
        diff = [sel(R["xyz"], base + 3 * b + k) - sel(R["xyz"], base + 3 * a + k) for k in range(3)]
        wit = [n for (_t, n) in ctx.ex.path.ghost.get("round_witness", [])]
        out = {}

        def disp_vals(vals):
            out["disp"] = vals
            for k, v in enumerate(vals):
                ctx.ex.require(f"congruence[{k}]:out=(xb-xa)-n*L(integer-n)", z3.Or([v == diff[k] - z3.ToReal(n) * L(I, k) for n in wit]))
                ctx.ex.require(f"wrap-bound[{k}]:|out|<=L/2", z3.And(v <= L(I, k) / 2, -v <= L(I, k) / 2))

        def dist_val(d):
            # the distance is the length of the wrapped vector (stated on the congruent representative)
            n3 = [z3.Int(f"w{k}") for k in range(3)]
            ctx.ex.require("distance>=0", d >= 0)
            ctx.ex.require("distance^2=|wrapped-displacement|^2", z3.Or([
                z3.And(d * d == sum((diff[k] - z3.ToReal(w[k]) * L(I, k)) * (diff[k] - z3.ToReal(w[k]) * L(I, k)) for k in range(3)),
                       *[z3.And(diff[k] - z3.ToReal(w[k]) * L(I, k) <= L(I, k) / 2, -(diff[k] - z3.ToReal(w[k]) * L(I, k)) <= L(I, k) / 2) for k in range(3)])
                for w in _triples(wit)]))
        check_writes(ctx, R, I, J, npairs, store_dist, store_disp, dist_val, disp_vals)

    def box_ok(I):
        return [L(I, k) > 0 for k in range(3)]

    frame_loops(ctx, c, "dist_mic", R, nf, na, npairs, store_dist, store_disp, True, per_pair, extra_outer=box_ok)
    out = ctx.ccall("dist_mic", Ptr(R["xyz"], 0), Ptr(R["pairs"], 0), Ptr(R["box"], 0),
                    Ptr(R["dout"], 0) if store_dist else NULL, Ptr(R["disp"], 0) if store_disp else NULL, nf, na, npairs)
    ctx.cover("finished")
    ctx.ensure("returns-normally", out.exc is None)
    # L1: the wrapped component is the smallest among all images (orthorhombic => component-wise => vector)
    L1 = ctx.lemma("L1:|x|<=L/2,m-integer=>|x|<=|x+mL|", 3, lambda x, Lk, m: z3.Implies(
        z3.And(Lk > 0, x <= Lk / 2, -x <= Lk / 2, m == z3.ToReal(z3.ToInt(m))), x * x <= (x + m * Lk) * (x + m * Lk)))


def _triples(wit):
    """the last three rounding witnesses are those of lanes 0..2 of round(r12*inv_box_size) (lane 3 is the constant 0)"""
    if len(wit) >= 3:
        return [wit[-3:]]
    return []


@contract("C05", "mdtraj/geometry/src/kernels/distancekernels.h", "dist", cases=CASES, lang="c", replay="dist", covers=["pair-iteration", "finished"])
def dist_plain(ctx, case):
    store_dist, store_disp = case
    c = ctx.load_c("mdtraj/geometry/src/geometry.cpp", ["dist"], **GEOM)
    R = regions()
    snapshot(R)
    nf, na, npairs = ctx.int("n_frames"), ctx.int("n_atoms"), ctx.int("n_pairs")
    ctx.assume(nf >= 0, na >= 1, npairs >= 0)

    def per_pair(interp, env, I, J):
        ctx.cover("pair-iteration")
        a = sel(R["pairs"], 2 * term(J))
        b = sel(R["pairs"], 2 * term(J) + 1)
        base = 3 * term(na) * term(I)
        diff = [sel(R["xyz"], base + 3 * b + k) - sel(R["xyz"], base + 3 * a + k) for k in range(3)]

        def disp_vals(vals):
            for k, v in enumerate(vals):
                ctx.ex.require(f"displacement[{k}]=xb-xa", v == diff[k])

        def dist_val(d):
            ctx.ex.require("distance>=0", d >= 0)
            ctx.ex.require("distance^2=|xb-xa|^2", d * d == sum(x * x for x in diff))
        check_writes(ctx, R, I, J, npairs, store_dist, store_disp, dist_val, disp_vals)

    frame_loops(ctx, c, "dist", R, nf, na, npairs, store_dist, store_disp, False, per_pair)
    out = ctx.ccall("dist", Ptr(R["xyz"], 0), Ptr(R["pairs"], 0),
                    Ptr(R["dout"], 0) if store_dist else NULL, Ptr(R["disp"], 0) if store_disp else NULL, nf, na, npairs)
    ctx.cover("finished")
    ctx.ensure("returns-normally", out.exc is None)


# ---------------------------------------------------------------------------------------------
# triclinic kernel: box reduction, successive c,b,a wrapping, 27-image minimum
def box_cols(R, I):
    """the three box vectors of frame I as stored (column k of the row-major 3x3 matrix): v_k = (m[k], m[3+k], m[6+k])"""
    m = lambda t: sel(R["box"], 9 * term(I) + t)
    return [[m(k), m(3 + k), m(6 + k)] for k in range(3)]


def lower_triangular_positive(R, I):
    v1, v2, v3 = box_cols(R, I)
    return [v1[0] > 0, v1[1] == 0, v1[2] == 0, v2[1] > 0, v2[2] == 0, v3[2] > 0]


def lanes(fv):
    return [rterm(x) for x in fv.v[:3]]


def _abs_le(x, h):
    return z3.And(x <= h, -x <= h)


def cands_of(r, b1, b2, b3):
    out = []
    for x in (-1, 0, 1):
        for y in (-1, 0, 1):
            for z in (-1, 0, 1):
                out.append([r[k] + x * b1[k] + y * b2[k] + z * b3[k] for k in range(3)])
    return out


def triclinic_pair_clauses(ctx, interp, env, R, I, J, na, B, RC, diff):
    """per-pair clauses relative to the (reduced) box vectors B = (b1, b2, b3), lower triangular with positive diagonal,
    and recip RC with RC[k]*B[k][k] == 1"""
    ex = ctx.ex
    b1, b2, b3 = B
    wit = [n for (_t, n) in ex.path.ghost.get("round_witness", [])]
    if len(wit) < 3:
        ex.require("wrap:three-integer-roundings(c,b,a)", z3.BoolVal(False))
        wit = wit + [z3.Int(f"missing_w{i}") for i in range(3)]
    w3, w2, w1 = (z3.ToReal(n) for n in wit[-3:])
    WB = ctx.lemma("wrap-bound:|n-r*R|<=1/2,B>0,R*B=1=>|r-n*B|<=B/2", 4,
                   lambda n, r, Rr, Bb: z3.Implies(z3.And(_abs_le(n - r * Rr, z3.RealVal("1/2")), Bb > 0, Rr * Bb == 1), _abs_le(r - n * Bb, Bb / 2)))
    # values after each wrapping step (the code's own order: c, then b, then a)
    r0 = diff
    rz = [r0[k] - w3 * b3[k] for k in range(3)]
    ry = [rz[k] - w2 * b2[k] for k in range(3)]
    rx = [ry[k] - w1 * b1[k] for k in range(3)]
    WB(w3, r0[2], RC[2], b3[2])
    WB(w2, rz[1], RC[1], b2[1])
    WB(w1, ry[0], RC[0], b1[0])
    r = lanes(interp.getvar(env, "r12"))
    # float range (precondition on the inputs, stated on the wrapped vector): its squared length is representable,
    # so the first comparison against FLT_MAX in the image search succeeds
    for k in range(3):
        ex.require(f"wrap:r12[{k}]=diff-w3*c-w2*b-w1*a(integer-w)", r[k] == rx[k])
    ex.require("wrap-bound:|r_z|<=c_z/2", _abs_le(r[2], b3[2] / 2))
    ex.require("wrap-bound:|r_y|<=b_y/2", _abs_le(r[1], b2[1] / 2))
    ex.require("wrap-bound:|r_x|<=a_x/2", _abs_le(r[0], b1[0] / 2))
    out = lanes(interp.getvar(env, "min_r"))
    md2 = rterm(interp.getvar(env, "min_dist2"))
    steps = ctx.ghost.get("image_steps", [])
    ex.require("27-images:all-27-neighbouring-images-examined", z3.BoolVal(len(steps) == 27))
    want = cands_of(r, b1, b2, b3)
    for idx, (D, cand) in enumerate(steps):
        ex.require(f"27-images:|result|^2<=|image{idx}|^2", md2 <= D)
    ex.require("27-images:result-is-one-of-the-27-neighbouring-images", z3.Or([z3.And(*[out[k] == cj[k] for k in range(3)]) for (_d, cj) in steps]))
    ex.require("27-images:min_dist2=|result|^2", md2 == sum(o * o for o in out))
    for idx, (D, cand) in enumerate(steps):
        # each examined candidate is r + x*a + y*b + z*c  (x,y,z in {-1,0,1}, in the loop's order) and D is its squared length
        ex.require(f"27-images:candidate{idx}-is-r+x*a+y*b+z*c", z3.And(*[cand[k] == want[idx][k] for k in range(3)]) if idx < len(want) else z3.BoolVal(False))
    return out, md2


def triclinic_contract(fname):
    def harness(ctx, case):
        store_dist, store_disp = case
        c = ctx.load_c("mdtraj/geometry/src/geometry.cpp", [fname], **GEOM)
        R = regions()
        snapshot(R)
        nf, na, npairs = ctx.int("n_frames"), ctx.int("n_atoms"), ctx.int("n_pairs")
        ctx.assume(nf >= 0, na >= 1, npairs >= 0)
        from mdvc.cinterp import FV
        Bsym = [[z3.Real(f"B{i}{k}") for k in range(3)] for i in range(3)]
        RCsym = [z3.Real(f"RC{k}") for k in range(3)]
        state = {}
        # the frame whose cell is used: the frame itself, or (time-pair kernel) the FIRST frame of the time pair
        box_frame = (lambda I: SInt(sel(R["times"], 2 * term(I)))) if fname.endswith("_t") else (lambda I: I)

        def inner_entry(interp, env):
            """at the start of the pair loop of frame I: the reduction produced lattice-equivalent, lower-triangular vectors"""
            I = interp.getvar(env, "i")
            v1, v2, v3 = box_cols(R, box_frame(I))
            b1, b2, b3 = (lanes(interp.getvar(env, n)) for n in ("box_vec1", "box_vec2", "box_vec3"))
            wit = [n for (_t, n) in ctx.ex.path.ghost.get("round_witness", [])]
            if len(wit) < 3:
                return [("reduction:three-integer-roundings(p,q,s)", z3.BoolVal(False))]
            p, q, s_ = (z3.ToReal(n) for n in wit[:3])
            out = [("reduction:three-integer-roundings(p,q,s)", z3.BoolVal(True))]
            for k in range(3):
                out.append((f"reduction:box_vec1[{k}]=v1", b1[k] == v1[k]))
                out.append((f"reduction:box_vec2[{k}]=v2-s*v1(integer-s:lattice-kept)", b2[k] == v2[k] - s_ * v1[k]))
                out.append((f"reduction:box_vec3[{k}]=v3-p*v2-q*v1(integer-p,q:lattice-kept)", b3[k] == v3[k] - p * v2[k] - q * v1[k]))
            out.append(("reduction:stays-lower-triangular-with-positive-diagonal",
                        z3.And(b1[0] > 0, b1[1] == 0, b1[2] == 0, b2[1] > 0, b2[2] == 0, b3[2] > 0)))
            rp = interp.getvar(env, "recip_box_size")
            rc = [rterm(rp.region.read(k)) for k in range(3)]
            out.append(("recip_box_size[k]*diagonal[k]=1", z3.And(rc[0] * b1[0] == 1, rc[1] * b2[1] == 1, rc[2] * b3[2] == 1)))
            return out

        def inner_havoc_extra(interp, env):
            """arbitrary pair iteration: the reduced box is ANY lower-triangular positive-diagonal triple (modular cut)"""
            for i, n in enumerate(("box_vec1", "box_vec2", "box_vec3")):
                interp.setvar(env, n, FV([SReal(Bsym[i][k]) for k in range(3)] + [0.0]))
            rp = interp.getvar(env, "recip_box_size")
            for k in range(3):
                rp.region.local[k] = SReal(RCsym[k])
            state["fv"] = [interp.getvar(env, n) for n in ("box_vec1", "box_vec2", "box_vec3")]
            b1, b2, b3 = Bsym
            return [b1[0] > 0, b1[1] == 0, b1[2] == 0, b2[1] > 0, b2[2] == 0, b3[2] > 0,
                    RCsym[0] * b1[0] == 1, RCsym[1] * b2[1] == 1, RCsym[2] * b3[2] == 1]

        c.relational_merge = True
        FLT_MAX = z3.RealVal("340282346638528859811704183484516925440")

        def merge_hook(interp, env, cond, inner):
            """after each join of `if (dist2 <= min_dist2) {min_dist2 = dist2; min_r = rc;}`: loop invariant of the image search,
            proved step by step (require, then assume):  min_dist2 = |min_r|^2, min_dist2 <= every candidate so far,
            min_r is one of the candidates so far"""
            ex = ctx.ex
            steps = ctx.ghost.setdefault("image_steps", [])
            D = rterm(interp.getvar(env, "dist2"))
            cand = lanes(interp.getvar(env, "rc"))
            k = len(steps)
            if k == 0:
                # float range precondition: the first candidate's squared length is representable (<= FLT_MAX)
                ex.assume(D <= FLT_MAX)
            steps.append((D, cand))
            md2 = rterm(interp.getvar(env, "min_dist2"))
            out = lanes(interp.getvar(env, "min_r"))
            prev = ctx.ghost.get("prev_md2")
            facts = [("dist2=|rc|^2", D == sum(t * t for t in cand)),
                     ("min_dist2=|min_r|^2", md2 == sum(t * t for t in out)),
                     ("min_dist2>=0", md2 >= 0),
                     ("min_dist2<=this-candidate", md2 <= D),
                     ("min_r-is-this-candidate-or-the-previous-minimum", z3.Or(z3.And(*[out[i] == cand[i] for i in range(3)]),
                                                                               z3.And(*[out[i] == ctx.ghost["prev_out"][i] for i in range(3)]) if prev is not None else z3.BoolVal(False)))]
            if prev is not None:
                facts.append(("min_dist2-never-increases", md2 <= prev))
            ctx.ghost["prev_md2"], ctx.ghost["prev_out"] = md2, out
            ctx.ghost.setdefault("minima", []).append((md2, out))
            for name, f in facts:
                ex.require(f"image-search-step:{name}", f)
                ex.assume(f)

        c.merge_hook = merge_hook

        def decl_hook(interp, env, name, v):
            # cut before the image search: the wrapped vector r12 gets names, so that the 27 candidates are linear in them
            if name == "min_r":
                named = interp.name_value(interp.getvar(env, "r12"), "r12_")
                interp.setvar(env, "r12", named)
                from mdvc.cinterp import FV as _FV
                return _FV(named.v)
            return v

        c.decl_hook = decl_hook

        def per_pair(interp, env, I, J):
            ctx.cover("pair-iteration")
            ex = ctx.ex
            ctx.ghost["image_steps"] = ctx.ghost.get("image_steps", [])
            if fname.endswith("_t"):
                t0 = sel(R["times"], 2 * term(I))
                t1 = sel(R["times"], 2 * term(I) + 1)
                a = sel(R["pairs"], 2 * term(J))
                b = sel(R["pairs"], 2 * term(J) + 1)
                diff = [sel(R["xyz"], 3 * term(na) * t1 + 3 * b + k) - sel(R["xyz"], 3 * term(na) * t0 + 3 * a + k) for k in range(3)]
            else:
                a = sel(R["pairs"], 2 * term(J))
                b = sel(R["pairs"], 2 * term(J) + 1)
                base = 3 * term(na) * term(I)
                diff = [sel(R["xyz"], base + 3 * b + k) - sel(R["xyz"], base + 3 * a + k) for k in range(3)]
            out, md2 = triclinic_pair_clauses(ctx, interp, env, R, I, J, na, Bsym, RCsym, diff)
            # the pair loop does not modify the reduced box
            for i, n in enumerate(("box_vec1", "box_vec2", "box_vec3")):
                ex.require(f"pair-loop-leaves-{n}", z3.And(*[rterm(x) == Bsym[i][k] for k, x in enumerate(interp.getvar(env, n).v[:3])]))

            def disp_vals(vals):
                for k, v in enumerate(vals):
                    ex.require(f"displacement[{k}]-is-the-minimum-image-vector", v == out[k])

            def dist_val(d):
                ex.require("distance>=0", d >= 0)
                ex.require("distance^2=min_dist2", d * d == md2)
            check_writes(ctx, R, I, J, npairs, store_dist, store_disp, dist_val, disp_vals)

        if fname.endswith("_t"):
            _t_loops(ctx, c, fname, R, nf, na, npairs, store_dist, store_disp, True, per_pair, inner_entry=inner_entry, inner_havoc_extra=inner_havoc_extra,
                     extra_outer=lambda I: lower_triangular_positive(R, box_frame(I)), positive_diagonal=False)
            out = ctx.ccall(fname, Ptr(R["xyz"], 0), Ptr(R["pairs"], 0), Ptr(R["times"], 0), Ptr(R["box"], 0),
                            Ptr(R["dout"], 0) if store_dist else NULL, Ptr(R["disp"], 0) if store_disp else NULL, nf, na, npairs)
        else:
            frame_loops(ctx, c, fname, R, nf, na, npairs, store_dist, store_disp, True, per_pair,
                        extra_outer=lambda I: lower_triangular_positive(R, I), inner_entry=inner_entry, inner_havoc_extra=inner_havoc_extra)
            out = ctx.ccall(fname, Ptr(R["xyz"], 0), Ptr(R["pairs"], 0), Ptr(R["box"], 0),
                            Ptr(R["dout"], 0) if store_dist else NULL, Ptr(R["disp"], 0) if store_disp else NULL, nf, na, npairs)
        ctx.cover("finished")
        ctx.ensure("returns-normally", out.exc is None)
    return harness


for _case in CASES:  # one registration per case: the cases are explored and discharged in parallel
    contract("C05", "mdtraj/geometry/src/geometry.cpp", "dist_mic_triclinic", cases=[_case], lang="c", replay="dist",
             covers=["pair-iteration", "finished"])(triclinic_contract("dist_mic_triclinic"))
    # the time-pair variant: atom a from frame t1, atom b from frame t2, the cell of frame t1 (and the cell pointer restored after every time pair)
    contract("C05", "mdtraj/geometry/src/geometry.cpp", "dist_mic_triclinic_t", cases=[_case], lang="c", replay="dist",
             covers=["pair-iteration", "finished"])(triclinic_contract("dist_mic_triclinic_t"))


# ---------------------------------------------------------------------------------------------
# Python dispatch: compute_distances_core chooses the kernel.  periodic and cell present => a minimum-image path;
# the orthorhombic kernel is chosen iff EVERY frame's cell is orthogonal; the box is transposed exactly once.
from mdvc.core import SBool  # noqa: E402
from mdvc.pyinterp import Namespace, OpaqueModule  # noqa: E402
from mdvc.tarr import TArr  # noqa: E402


class BoxSeq:
    """per-frame box vectors (F, 3, 3) as an opaque sequence of frames"""
    is_ndarray = True

    def __init__(self, F, transposed=0, copied=False):
        self.F, self.transposed, self.copied = F, transposed, copied

    def sym_len(self, interp):
        return self.F

    def sym_iter(self, interp):
        return [BoxFrame(f) for f in range(self.F)]

    def sym_getitem(self, interp, k):
        if isinstance(k, int):
            return BoxFrame(k)
        raise core.Unsupported("BoxSeq index")

    def sym_getattr(self, interp, name):
        if name == "shape":
            return (self.F, 3, 3)
        if name == "ndim":
            return 3
        if name == "dtype":
            return ("dtype", "float32")
        if name == "transpose":
            return lambda *axes: BoxSeq(self.F, self.transposed + (1 if tuple(axes) == (0, 2, 1) else 100), self.copied)
        if name == "copy":
            return lambda: BoxSeq(self.F, self.transposed, True)
        raise core.Unsupported("BoxSeq." + name)


class BoxFrame:
    def __init__(self, f):
        self.f = f

    def sym_getitem(self, interp, k):
        return ("boxrow", self.f, k)

    def sym_iter(self, interp):
        return [("boxrow", self.f, k) for k in range(3)]


class Angles:
    """angles of a set of frames; allclose(., 90) is the conjunction of the per-frame orthogonality facts"""
    is_ndarray = True

    def __init__(self, frames):
        self.frames = tuple(frames)

    def sym_getattr(self, interp, name):
        if name == "T":
            return self
        raise core.Unsupported("Angles." + name)


def ortho(f):
    return z3.Bool(f"frame{f}-is-orthogonal")


@contract("C05", "mdtraj/geometry/distance.py", "compute_distances_core", cases=[(p, c, o) for p in (True, False) for c in (True, False) for o in (True, False)],
          replay="dist", covers=["kernel-called"])
def distances_core(ctx, case):
    periodic, have_cell, opt = case
    from mdvc.npmodel import NumpyT
    F = 2
    calls = []

    class NP(NumpyT):
        def np_array(self, interp, x, *a, **k):
            if isinstance(x, list) and x and all(isinstance(e, tuple) and e and e[0] == "angle" for e in x):
                return Angles({e[1] for e in x})
            if isinstance(x, list) and x and all(isinstance(e, Angles) for e in x):
                return Angles(set().union(*[e.frames for e in x]))
            return super().np_array(interp, x, *a, **k)

        def np_allclose(self, interp, a, b, **k):
            if isinstance(a, Angles) and b == 90:
                return SBool(z3.And(*[ortho(f) for f in sorted(a.frames)]))
            raise core.Unsupported("np.allclose")

        def np_logical_and(self, interp, a, b):
            from mdvc.tarr import TCond
            return TCond(("and", getattr(a, "key", a), getattr(b, "key", b)))

        def np_empty(self, interp, shape, **k):
            return TArr(("empty", core.fresh_name("out")), shape=shape)

        def np_ascontiguousarray(self, interp, a, dtype=None, **k):
            if isinstance(a, BoxSeq):
                return a
            return super().np_ascontiguousarray(interp, a, dtype=dtype, **k)

    im = ctx.interp.import_models
    im["numpy"] = NP()
    geom = Namespace("_geometry", _dist_mic=lambda *a: calls.append(("_dist_mic", a)), _dist=lambda *a: calls.append(("_dist", a)))
    im["mdtraj.geometry"] = Namespace("geometry", _geometry=geom)

    def b2la(interp, args, kwargs):
        f = args[0][1]
        ok = all(isinstance(r, tuple) and r[0] == "boxrow" and r[1] == f and r[2] == k for k, r in enumerate(args))
        ctx.ex.require("angles-computed-from-the-three-vectors-of-one-frame", z3.BoolVal(ok))
        return ("len", f, 0), ("len", f, 1), ("len", f, 2), ("angle", f, 0), ("angle", f, 1), ("angle", f, 2)

    ctx.interp.call_models["mdtraj.utils.unitcell.box_vectors_to_lengths_and_angles"] = b2la
    mod = ctx.module("mdtraj/geometry/distance.py")
    mod.globals["_distance_mic"] = lambda *a: calls.append(("_distance_mic", a))
    mod.globals["_distance"] = lambda *a: calls.append(("_distance", a))
    xyz = TArr("xyz", shape=(F, 7, 3))
    pairs = TArr("pairs", shape=(3, 2), dtype="int32")
    box = BoxSeq(F) if have_cell else None
    out = ctx.call(mod.globals["compute_distances_core"], xyz, pairs, unitcell_vectors=box, periodic=periodic, opt=opt)
    if out.raised:
        # only the documented index-range refusal
        ctx.ensure("only-the-index-range-check-may-refuse", out.exc.name == "ValueError" and not calls)
        return
    ctx.cover("kernel-called")
    ctx.ensure("exactly-one-kernel-call", len(calls) == 1)
    if len(calls) != 1:
        return
    name, a = calls[0]
    mic = periodic and have_cell
    want = {(True, True): "_dist_mic", (True, False): "_distance_mic", (False, True): "_dist", (False, False): "_distance"}[(mic, opt)]
    ctx.ensure("periodic-and-cell-present<=>minimum-image-path;opt-selects-the-native-kernel", name == want)
    if mic and name in ("_dist_mic", "_distance_mic"):
        b = a[2]
        flag = a[4] if name == "_dist_mic" else a[3]
        ctx.ensure("box-transposed-exactly-once", isinstance(b, BoxSeq) and b.transposed == 1)
        ctx.ensure("orthorhombic-kernel-iff-EVERY-frame-is-orthogonal", core.as_bool_term(flag) == z3.And(*[ortho(f) for f in range(F)]))
        if name == "_dist_mic":
            ctx.ensure("native-kernel-gets-its-own-copy-of-the-box", b.copied)
    ctx.ensure("coordinates-and-pairs-passed-unchanged", a[0] is xyz and a[1] is pairs)


# ---------------------------------------------------------------------------------------------
# time-pair kernels (compute_distances_t): atom a is taken from frame t1, atom b from frame t2, the cell from frame t1
def _t_loops(ctx, c, fname, R, n_times, n_atoms, n_pairs, store_dist, store_disp, periodic, per_pair, inner_entry=None, inner_havoc_extra=None, extra_outer=None,
             positive_diagonal=True):
    I, J = ctx.int("I"), ctx.int("J")
    nt, na, npairs = term(n_times), term(n_atoms), term(n_pairs)
    t1 = lambda i: z3.Select(R["times"].mem0, 2 * term(i))

    def set_ptrs(interp, env, i, j, inner):
        if periodic:
            interp.setvar(env, "box_matrix", Ptr(R["box"], SInt(z3.simplify(9 * t1(i))) if inner else 0))
        if store_dist:
            interp.setvar(env, "distance_out", Ptr(R["dout"], SInt(z3.simplify(term(i) * npairs + term(j)))))
        if store_disp:
            interp.setvar(env, "displacement_out", Ptr(R["disp"], SInt(z3.simplify(3 * (term(i) * npairs + term(j))))))

    def ptr_inv(interp, env, i, j, inner):
        out = []

        def eq(name, region, off):
            p = interp.getvar(env, name)
            ok = isinstance(p, Ptr) and p.region is region
            out.append((name, z3.And(z3.BoolVal(ok), term(p.off) == off) if ok else z3.BoolVal(False)))
        if periodic:
            eq("box_matrix", R["box"], 9 * t1(i) if inner else z3.IntVal(0))
        if store_dist:
            eq("distance_out", R["dout"], term(i) * npairs + term(j))
        if store_disp:
            eq("displacement_out", R["disp"], 3 * (term(i) * npairs + term(j)))
        return out

    def o_havoc(interp, env, g):
        interp.setvar(env, "i", I)
        set_ptrs(interp, env, I, 0, False)
        a = [I.t >= 0]
        if periodic and positive_diagonal:
            a += [sel(R["box"], 9 * t1(I) + 4 * k) > 0 for k in range(3)]
        if extra_outer:
            a += extra_outer(I)
        return a

    def o_inv(interp, env, g):
        i = interp.getvar(env, "i")
        return ptr_inv(interp, env, i, 0, False) + [("0<=i<=n_times", z3.And(term(i) >= 0, term(i) <= nt))]

    def i_havoc(interp, env, g):
        interp.setvar(env, "j", J)
        set_ptrs(interp, env, interp.getvar(env, "i"), J, True)
        for r in R.values():
            r.writes.clear()
        extra = inner_havoc_extra(interp, env) if inner_havoc_extra else []
        return [J.t >= 0] + list(extra)

    def i_inv(interp, env, g):
        i, j = interp.getvar(env, "i"), interp.getvar(env, "j")
        out = ptr_inv(interp, env, i, j, True) + [("0<=j<=n_pairs", z3.And(term(j) >= 0, term(j) <= npairs))]
        if g.get("entry") and inner_entry:
            out += inner_entry(interp, env)
        return out

    def i_exit(interp, env, g):
        interp.setvar(env, "j", SInt(npairs))
        set_ptrs(interp, env, interp.getvar(env, "i"), SInt(npairs), True)

    c.loop_specs[(fname, 0)] = CLoopSpec(o_havoc, o_inv, exit_state=lambda interp, env, g: interp.setvar(env, "i", SInt(nt)))
    c.loop_specs[(fname, 1)] = CLoopSpec(i_havoc, i_inv, at_end=lambda interp, env, g: per_pair(interp, env, I, J), exit_state=i_exit)
    return I, J


def _dist_t(ctx, case, periodic):
    store_dist, store_disp = case
    fname = "dist_mic_t" if periodic else "dist_t"
    c = ctx.load_c("mdtraj/geometry/src/geometry.cpp", [fname], **GEOM)
    R = regions()
    snapshot(R)
    nt, na, npairs = ctx.int("n_times"), ctx.int("n_atoms"), ctx.int("n_pairs")
    ctx.assume(nt >= 0, na >= 1, npairs >= 0)

    def per_pair(interp, env, I, J):
        ctx.cover("pair-iteration")
        a = sel(R["pairs"], 2 * term(J))
        b = sel(R["pairs"], 2 * term(J) + 1)
        f1 = sel(R["times"], 2 * term(I))
        f2 = sel(R["times"], 2 * term(I) + 1)
        diff = [sel(R["xyz"], 3 * term(na) * f2 + 3 * b + k) - sel(R["xyz"], 3 * term(na) * f1 + 3 * a + k) for k in range(3)]
        L = lambda k: sel(R["box"], 9 * f1 + 4 * k)
        wit = [n for (_t, n) in ctx.ex.path.ghost.get("round_witness", [])]

        def disp_vals(vals):
            for k, v in enumerate(vals):
                if periodic:
                    ctx.ex.require(f"congruence[{k}]:out=(x_b(t2)-x_a(t1))-n*L(t1)(integer-n)", z3.Or([v == diff[k] - z3.ToReal(n) * L(k) for n in wit]))
                    ctx.ex.require(f"wrap-bound[{k}]:|out|<=L(t1)/2", z3.And(v <= L(k) / 2, -v <= L(k) / 2))
                else:
                    ctx.ex.require(f"displacement[{k}]=x_b(t2)-x_a(t1)", v == diff[k])

        def dist_val(d):
            ctx.ex.require("distance>=0", d >= 0)
            if periodic:
                ctx.ex.require("distance^2=|wrapped-displacement|^2", z3.Or([
                    z3.And(d * d == sum((diff[k] - z3.ToReal(w[k]) * L(k)) * (diff[k] - z3.ToReal(w[k]) * L(k)) for k in range(3)),
                           *[z3.And(diff[k] - z3.ToReal(w[k]) * L(k) <= L(k) / 2, -(diff[k] - z3.ToReal(w[k]) * L(k)) <= L(k) / 2) for k in range(3)])
                    for w in _triples(wit)]))
            else:
                ctx.ex.require("distance^2=|x_b(t2)-x_a(t1)|^2", d * d == sum(x * x for x in diff))
        check_writes(ctx, R, I, J, npairs, store_dist, store_disp, dist_val, disp_vals)

    _t_loops(ctx, c, fname, R, nt, na, npairs, store_dist, store_disp, periodic, per_pair)
    args = [Ptr(R["xyz"], 0), Ptr(R["pairs"], 0), Ptr(R["times"], 0)] + ([Ptr(R["box"], 0)] if periodic else []) + \
           [Ptr(R["dout"], 0) if store_dist else NULL, Ptr(R["disp"], 0) if store_disp else NULL, nt, na, npairs]
    out = ctx.ccall(fname, *args)
    ctx.cover("finished")
    ctx.ensure("returns-normally", out.exc is None)


contract("C05", "mdtraj/geometry/src/kernels/distancekernels.h", "dist_t", cases=CASES, lang="c", replay="dist", covers=["pair-iteration", "finished"])(lambda ctx, case: _dist_t(ctx, case, False))
contract("C05", "mdtraj/geometry/src/kernels/distancekernels.h", "dist_mic_t", cases=CASES, lang="c", replay="dist", covers=["pair-iteration", "finished"])(lambda ctx, case: _dist_t(ctx, case, True))


# ---------------------------------------------------------------------------------------------
# the NumPy reference implementations (opt=False): _distance, _displacement, _reduce_box_vectors, _distance_mic
def _ref_env(ctx):
    from mdvc import npobj

    ctx.interp.import_models["numpy"] = npobj.NumpyO()
    ctx.interp.import_models["mdtraj.geometry"] = Namespace("geometry", _geometry=None)
    return ctx.module("mdtraj/geometry/distance.py"), npobj


def reference_paths(ctx, case):
    import numpy as np

    mod, npobj = _ref_env(ctx)
    ex = ctx.ex
    F, A = 1, 3
    X = [[[ctx.real(f"x{f}_{a}_{k}") for k in range(3)] for a in range(A)] for f in range(F)]
    xyz = npobj.oarr((F, A, 3), lambda f, a, k: X[f][a][k])
    pairs = np.array([[0, 2], [2, 1]], dtype=np.int32)
    if case == "plain":
        d = ctx.call(mod.globals["_distance"], xyz, pairs)
        v = ctx.call(mod.globals["_displacement"], xyz, pairs)
        ctx.ensure("no-exception", not d.raised and not v.raised)
        if d.raised or v.raised:
            return
        ctx.cover("returned")
        for j, (a, b) in enumerate(pairs.tolist()):
            diff = [rterm(X[0][b][k]) - rterm(X[0][a][k]) for k in range(3)]
            for k in range(3):
                ctx.ensure(f"pair{j}:displacement[{k}]=x_b-x_a", rterm(v.value[0][j][k]) == diff[k])
            dv = rterm(d.value[0][j])
            ctx.ensure(f"pair{j}:distance>=0-and-distance^2=|x_b-x_a|^2", z3.And(dv >= 0, dv * dv == sum(t * t for t in diff)))
        return
    B = [[ctx.real(f"b{r}{k}") for k in range(3)] for r in range(3)]  # rows: the cell vectors a, b, c
    if case == "reduce-orthorhombic":
        ctx.assume(*[B[r][k] == 0 for r in range(3) for k in range(3) if r != k], *[B[k][k] > 0 for k in range(3)])
        vecs = npobj.oarr((3, 3), lambda r, k: B[r][k])
        out = ctx.call(mod.globals["_reduce_box_vectors"], vecs)
        ctx.ensure("no-exception", not out.raised)
        if out.raised:
            return
        ctx.cover("returned")
        for r in range(3):
            for k in range(3):
                ctx.ensure(f"orthorhombic-cell-is-returned-unchanged[{r}][{k}]", rterm(out.value[r][k]) == rterm(B[r][k]))
        return
    if case in ("reduce", "mic-triclinic"):
        ctx.assume(B[0][1] == 0, B[0][2] == 0, B[1][2] == 0, B[0][0] > 0, B[1][1] > 0, B[2][2] > 0)
    else:
        ctx.assume(*[B[r][k] == 0 for r in range(3) for k in range(3) if r != k], *[B[k][k] > 0 for k in range(3)])
    if case == "reduce":
        vecs = npobj.oarr((3, 3), lambda r, k: B[r][k])
        before = [[vecs[r][k] for k in range(3)] for r in range(3)]
        out = ctx.call(mod.globals["_reduce_box_vectors"], vecs)
        ctx.ensure("no-exception", not out.raised)
        if out.raised:
            return
        ctx.cover("returned")
        r1, r2, r3 = out.value
        wit = [n for (_t, n) in ex.path.ghost.get("round_witness", [])]
        ctx.ensure("three-integer-roundings", z3.BoolVal(len(wit) == 3))
        ctx.ensure("caller's-vectors-not-modified", z3.BoolVal(all(vecs[r][k] is before[r][k] for r in range(3) for k in range(3))))
        if len(wit) != 3:
            return
        k1, k2, k3 = (z3.ToReal(n) for n in wit)
        Bt = [[rterm(B[r][k]) for k in range(3)] for r in range(3)]
        for k in range(3):
            ctx.ensure(f"a'[{k}]=a", rterm(r1[k]) == Bt[0][k])
            ctx.ensure(f"b'[{k}]=b-k3*a(integer-k3)", rterm(r2[k]) == Bt[1][k] - k3 * Bt[0][k])
            ctx.ensure(f"c'[{k}]=c-k1*b-k2*a(integer-k1,k2)", rterm(r3[k]) == Bt[2][k] - k1 * Bt[1][k] - k2 * Bt[0][k])
        half = z3.RealVal("1/2")
        ctx.ensure("reduced:|b'_x|<=a_x/2", z3.And(rterm(r2[0]) <= half * Bt[0][0], -rterm(r2[0]) <= half * Bt[0][0]))
        ctx.ensure("reduced:|c'_y|<=b_y/2", z3.And(rterm(r3[1]) <= half * Bt[1][1], -rterm(r3[1]) <= half * Bt[1][1]))
        ctx.ensure("reduced:|c'_x|<=a_x/2", z3.And(rterm(r3[0]) <= half * Bt[0][0], -rterm(r3[0]) <= half * Bt[0][0]))
        return
    box_t = npobj.oarr((F, 3, 3), lambda f, r, k: B[k][r])  # the caller hands over the transposed cell
    orth = case == "mic-orthorhombic"
    from mdvc import npreal

    npreal.CANON_SQRT[0] = True  # norms of polynomially equal vectors are the same term
    reduced = {}
    # _reduce_box_vectors is replaced by its contract (case "reduce"): a lower-triangular cell with positive diagonal that spans the
    # same lattice; for an orthorhombic cell it returns the cell itself (all three multipliers are 0)
    Rv = B if orth else [[ctx.real(f"r{r}{k}") for k in range(3)] for r in range(3)]
    if not orth:
        ctx.assume(Rv[0][1] == 0, Rv[0][2] == 0, Rv[1][2] == 0, Rv[0][0] > 0, Rv[1][1] > 0, Rv[2][2] > 0)

    def reduce_model(vectors):
        rows = [[vectors[r][k] for k in range(3)] for r in range(3)]
        reduced["arg_is_the_cell_rows"] = all(rows[r][k] is B[r][k] for r in range(3) for k in range(3))
        return tuple(npobj.oarr((3,), lambda k, r=r: Rv[r][k]) for r in range(3))
    mod.globals["_reduce_box_vectors"] = reduce_model
    try:
        out = ctx.call(mod.globals["_distance_mic"], xyz, pairs, box_t, orth)
    finally:
        npreal.CANON_SQRT[0] = False
    ctx.ensure("no-exception", not out.raised)
    if out.raised:
        return
    ctx.cover("returned")
    wit = [z3.ToReal(n) for (_t, n) in ex.path.ghost.get("round_witness", [])]
    per = 3
    V = [[rterm(Rv[r][k]) for k in range(3)] for r in range(3)]
    ctx.ensure("box-reduction-gets-the-cell-vectors-as-rows", z3.BoolVal(reduced.get("arg_is_the_cell_rows", False)))
    ctx.ensure("three-roundings-per-pair", z3.BoolVal(len(wit) == per * len(pairs)))
    if len(wit) != per * len(pairs):
        return
    from mdvc import polyid

    def norm(vec):
        return npreal.SQRT(polyid.canonical(sum(t * t for t in vec)))
    half = z3.RealVal("1/2")
    # WBdiv: rounding the quotient r/B to the integer n and subtracting n*B leaves a remainder of at most B/2
    WBdiv = ctx.lemma("WBdiv:|n-t|<=1/2,t*B=r,B>0=>|r-n*B|<=B/2", 4, lambda n, t, Bv, r: z3.Implies(
        z3.And(n - t <= half, t - n <= half, t * Bv == r, Bv > 0), z3.And(r - n * Bv <= Bv / 2, n * Bv - r <= Bv / 2)))
    raw = ex.path.ghost.get("round_witness", [])
    for j, (a, b) in enumerate(pairs.tolist()):
        n3, n2, n1 = wit[per * j: per * j + 3]
        diff = [rterm(X[0][b][k]) - rterm(X[0][a][k]) for k in range(3)]
        w = [diff[k] - n3 * V[2][k] - n2 * V[1][k] - n1 * V[0][k] for k in range(3)]
        dv = rterm(out.value[0][j])
        t3, t2, t1 = (raw[per * j + q][0] for q in range(3))  # the quotients the code rounded
        WBdiv(n3, t3, V[2][2], diff[2])
        WBdiv(n2, t2, V[1][1], diff[1] - n3 * V[2][1])
        WBdiv(n1, t1, V[0][0], diff[0] - n3 * V[2][0] - n2 * V[1][0])
        if orth:
            ctx.ensure(f"pair{j}:distance=|(x_b-x_a)-n.L|(integer-n)", dv == norm(w))
            for k in range(3):
                ctx.ensure(f"pair{j}:wrap-bound[{k}]:|component|<=L/2", z3.And(w[k] <= V[k][k] / 2, -w[k] <= V[k][k] / 2))
        else:
            imgs = [[w[k] + x * V[0][k] + y * V[1][k] + z_ * V[2][k] for k in range(3)] for x in (-1, 0, 1) for y in (-1, 0, 1) for z_ in (-1, 0, 1)]
            norms = [norm(im) for im in imgs]
            for k in (2, 1, 0):  # sequential wrapping by c, then b, then a of a lower-triangular cell: the wrapped vector lies in the centred cell
                ctx.ensure(f"pair{j}:wrapped-vector-component[{k}]-within-half-the-diagonal-entry", z3.And(w[k] <= V[k][k] / 2, -w[k] <= V[k][k] / 2))
            ctx.ensure(f"pair{j}:distance<=the-length-of-every-one-of-the-27-images-of-the-wrapped-vector(reduced-cell)", z3.And(*[dv <= s for s in norms]))
            ctx.ensure(f"pair{j}:distance-is-the-length-of-one-of-them", z3.Or(*[dv == s for s in norms]))


for _c in ["plain", "reduce", "reduce-orthorhombic", "mic-orthorhombic", "mic-triclinic"]:
    contract("C05", "mdtraj/geometry/distance.py", "_distance|_displacement|_reduce_box_vectors|_distance_mic(opt=False)", cases=[_c], replay="dist", covers=["returned"])(reference_paths)


def reference_paths_more(ctx, case):
    """further NumPy reference functions over the contract of _reduce_box_vectors (case "reduce" above):
       _displacement_mic on an orthorhombic cell: the returned vector is (x_b - x_a) - n.L with integer n, every component within L/2;
       _distance_mic_t (time pairs): the separation of atom c in frame t1 and atom d in frame t2 is wrapped with the cell of frame t1;
            orthorhombic: its length; general cell: not longer than any of the 27 images of the wrapped vector, and the length of one of them."""
    import numpy as np
    from mdvc import npreal, polyid

    mod, npobj = _ref_env(ctx)
    ex = ctx.ex
    kind, orth = case
    F, A = (1, 3) if kind == "disp" else (2, 2)
    X = [[[ctx.real(f"x{f}_{a}_{k}") for k in range(3)] for a in range(A)] for f in range(F)]
    xyz = npobj.oarr((F, A, 3), lambda f, a, k: X[f][a][k])
    pairs = np.array([[0, 2], [2, 1]], dtype=np.int32) if kind == "disp" else np.array([[0, 1]], dtype=np.int32)
    B = [[[ctx.real(f"b{f}_{r}{k}") for k in range(3)] for r in range(3)] for f in range(F)]  # per frame, rows: the cell vectors
    box_t = npobj.oarr((F, 3, 3), lambda f, r, k: B[f][k][r])  # the caller hands over the transposed cells
    Rv = [[ctx.real(f"r{r}{k}") for k in range(3)] for r in range(3)]
    if orth:
        ctx.assume(*[Rv[r][k] == 0 for r in range(3) for k in range(3) if r != k], *[Rv[k][k] > 0 for k in range(3)])
    else:
        ctx.assume(Rv[0][1] == 0, Rv[0][2] == 0, Rv[1][2] == 0, Rv[0][0] > 0, Rv[1][1] > 0, Rv[2][2] > 0)
    seen = {}

    def reduce_model(vectors):
        rows = [[vectors[r][k] for k in range(3)] for r in range(3)]
        seen["frames"] = seen.get("frames", []) + [f for f in range(F) if all(rows[r][k] is B[f][r][k] for r in range(3) for k in range(3))]
        return tuple(npobj.oarr((3,), lambda k, r=r: Rv[r][k]) for r in range(3))
    mod.globals["_reduce_box_vectors"] = reduce_model
    npreal.CANON_SQRT[0] = True
    try:
        if kind == "disp":
            out = ctx.call(mod.globals["_displacement_mic"], xyz, pairs, box_t, orth)
        else:
            times = np.array([[0, 1]], dtype=np.int32)
            out = ctx.call(mod.globals["_distance_mic_t"], xyz, pairs, times, box_t, orth)
    finally:
        npreal.CANON_SQRT[0] = False
    ctx.ensure("no-exception", not out.raised)
    if out.raised:
        return
    ctx.cover("returned")
    ctx.ensure("the-cell-that-is-reduced-is-the-one-of-" + ("the-frame" if kind == "disp" else "the-FIRST-frame-of-the-time-pair") + "(rows=cell-vectors)", seen.get("frames") == [0])
    raw = ex.path.ghost.get("round_witness", [])
    wit = [z3.ToReal(n) for (_t, n) in raw]
    ctx.ensure("three-roundings-per-pair", len(wit) == 3 * len(pairs))
    if len(wit) != 3 * len(pairs):
        return
    V = [[rterm(Rv[r][k]) for k in range(3)] for r in range(3)]
    half = z3.RealVal("1/2")
    WBdiv = ctx.lemma("WBdiv:|n-t|<=1/2,t*B=r,B>0=>|r-n*B|<=B/2", 4, lambda n, t, Bv, r: z3.Implies(
        z3.And(n - t <= half, t - n <= half, t * Bv == r, Bv > 0), z3.And(r - n * Bv <= Bv / 2, n * Bv - r <= Bv / 2)))
    norm = lambda vec: npreal.SQRT(polyid.canonical(sum(t * t for t in vec)))
    for j, (a, b) in enumerate(pairs.tolist()):
        n3, n2, n1 = wit[3 * j: 3 * j + 3]
        t3, t2, t1 = (raw[3 * j + q][0] for q in range(3))
        if kind == "disp":
            diff = [rterm(X[0][b][k]) - rterm(X[0][a][k]) for k in range(3)]
        else:
            diff = [rterm(X[0][a][k]) - rterm(X[1][b][k]) for k in range(3)]  # atom a of frame t1 against atom b of frame t2 (the sign does not matter for a distance)
        w = [diff[k] - n3 * V[2][k] - n2 * V[1][k] - n1 * V[0][k] for k in range(3)]
        WBdiv(n3, t3, V[2][2], diff[2])
        WBdiv(n2, t2, V[1][1], diff[1] - n3 * V[2][1])
        WBdiv(n1, t1, V[0][0], diff[0] - n3 * V[2][0] - n2 * V[1][0])
        for k in (2, 1, 0):
            ctx.ensure(f"pair{j}:wrapped-component[{k}]-within-half-the-diagonal-entry", z3.And(w[k] <= V[k][k] / 2, -w[k] <= V[k][k] / 2))
        if kind == "disp":
            for k in range(3):
                ctx.ensure(f"pair{j}:displacement[{k}]=(x_b-x_a)-n.L(integer-n)", rterm(out.value[0][j][k]) == w[k])
        elif orth:
            ctx.ensure(f"pair{j}:distance=|wrapped-separation|", rterm(out.value[0][j]) == norm(w))
        else:
            dv = rterm(out.value[0][j])
            imgs = [[w[k] + x * V[0][k] + y * V[1][k] + z_ * V[2][k] for k in range(3)] for x in (-1, 0, 1) for y in (-1, 0, 1) for z_ in (-1, 0, 1)]
            norms = [norm(im) for im in imgs]
            ctx.ensure(f"pair{j}:distance<=the-length-of-every-one-of-the-27-images-of-the-wrapped-vector", z3.And(*[dv <= s for s in norms]))
            ctx.ensure(f"pair{j}:distance-is-the-length-of-one-of-them", z3.Or(*[dv == s for s in norms]))


for _c in [("disp", True), ("t", True), ("t", False)]:
    contract("C05", "mdtraj/geometry/distance.py", "_displacement_mic|_distance_mic_t(opt=False)", cases=[_c], replay="dist", covers=["returned"])(reference_paths_more)
