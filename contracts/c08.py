"""C08 -- per-frame results do not depend on the other frames, the position in the trajectory or the thread schedule: as consequences of
kernel contracts proved for other properties and re-registered here.

Each of these contracts states, for an ARBITRARY frame i of a trajectory with a symbolic number of frames (loop invariants), the value written
for frame i as a function of frame i's own coordinates (and cell) only, at an output slot determined by i, together with the frame condition
"nothing else is written".  Hence the result for a frame is the same alone, inside a longer trajectory or after reordering, and -- the loop
body reading no state written by other iterations -- under every assignment of frames to threads (`#pragma omp` itself is not interpreted).
   distances      dist, dist_mic                      (contracts of C05)
   angles         angle, angle_mic, dihedral, dihedral_mic   (contracts of C07, modular over the distance kernels)
   hydrogen bonds kabsch_sander                        (contract of C14: frame / donor / acceptor loops)
together with asa_frame / sasa (C13) and the DSSP driver (C15) registered from their own modules.
"""
from mdvc.verify import contract

from . import c05, c07, c14

contract("C08", "mdtraj/geometry/src/kernels/distancekernels.h", "dist", cases=c05.CASES, lang="c", replay="frames", covers=["pair-iteration", "finished"])(c05.dist_plain)
contract("C08", "mdtraj/geometry/src/kernels/distancekernels.h", "dist_mic", cases=c05.CASES, lang="c", replay="frames", covers=["pair-iteration", "finished"])(c05.dist_mic)
for _fname, _kind, _per, _callee in [("angle", "angle", False, "dist"), ("angle_mic", "angle", True, "dist_mic"), ("dihedral", "dihedral", False, "dist"),
                                     ("dihedral_mic", "dihedral", True, "dist_mic")]:
    contract("C08", f"mdtraj/geometry/src/kernels/{_kind}kernels.h", _fname, lang="c", replay="frames", covers=["item-frame-iteration", "finished"])(
        c07.kernel_contract(_fname, _kind, _per, _callee))
contract("C08", c14.FILE, "kabsch_sander", lang="c", replay="frames", covers=["frame-iteration", "pair-iteration", "pair-evaluated", "finished"], max_paths=300)(c14.kabsch_sander)
