"""C07 -- angles and dihedrals equal their geometric definitions (C++ kernels, modular over the C05 `dist*` contracts).

The kernels call dist / dist_mic / dist_mic_triclinic with the pair lists (b,a),(b,c) resp. (a,b),(b,c),(c,d).
At the call site only the callee's CONTRACT is used (proved in C05): for every frame j and pair k the callee stores
the minimum-image displacement MI(j, first, second) at displacement_out[3*(j*n_pairs+k) + c] and its length at
distance_out[j*n_pairs+k].  MI and its length are uninterpreted spec functions here; the postconditions say that
the angle is acos(clip(u.v/(|u||v|))) with u, v the displacements FROM THE MIDDLE ATOM, that the dihedral is
atan2(|b2| b1.(b2 x b3), (b1 x b2).(b2 x b3)) over the three consecutive bond vectors, and that the value is
written at out[n*j + i] and nowhere else -- for all frames and all triplets/quartets (loop invariants).
Reversal / mirror lemmas are exact polynomial identities (sympy normal form).
"""
import z3

from mdvc import core, npreal
from mdvc.cinterp import CLoopSpec, Ptr, Region, NULL, VecRegion
from mdvc.core import SInt, SReal, rterm, term
from mdvc.verify import contract

GEOM = dict(include=("mdtraj/geometry/include", "mdtraj/geometry/src/kernels", "mdtraj/geometry/src"))
R_ = z3.RealSort()
I_ = z3.IntSort()
MI = z3.Function("MI", I_, I_, I_, I_, R_)      # frame, atom_from, atom_to, component -> minimum-image displacement (spec function, C05)
MILEN = z3.Function("MIlen", I_, I_, I_, R_)      # its length

# numeric interpretation of the spec functions (used only to falsify invalid VCs): any vector field with its true length
from mdvc import numeric as _numeric  # noqa: E402
import math as _math  # noqa: E402

_numeric.register("MI", lambda j, a, b, c: _numeric.pseudo("MI", round(j), round(a), round(b), round(c)))
_numeric.register("MIlen", lambda j, a, b: _math.sqrt(sum(_numeric.pseudo("MI", round(j), round(a), round(b), c) ** 2 for c in range(3))))


def dist_contract(ctx, R, n_pairs_expected, periodic, called, expected):
    """call model = the contract of dist*/dist_mic*/dist_mic_triclinic proved in C05"""
    def model(interp, args):
        ctx.ex.require("calls-the-distance-kernel-of-its-own-variant(" + expected + ")", z3.BoolVal(called == expected))
        periodic = called != "dist"
        if periodic:
            xyz, pairs, box, dout, disp, nf, na, npairs = args
        else:
            xyz, pairs, dout, disp, nf, na, npairs = args
        ex = ctx.ex
        ex.require("callee-pre:n_pairs-matches-pair-list", z3.BoolVal(npairs == n_pairs_expected))
        ex.require("callee-pre:xyz-is-the-coordinate-array", z3.BoolVal(isinstance(xyz, Ptr) and xyz.region is R["xyz"] and xyz.off == 0))
        if periodic:
            ex.require("callee-pre:box-is-the-box-array", z3.BoolVal(isinstance(box, Ptr) and box.region is R["box"] and box.off == 0))
        ex.require("callee-pre:n_frames,n_atoms-passed-through", z3.And(term(nf) == term(R["n_frames"]), term(na) == term(R["n_atoms"])))
        pl = [pairs.region.read(pairs.off + k) for k in range(2 * npairs)]
        # post: fresh contents of the two output regions, characterised for an ARBITRARY frame index (instantiated on use)
        dreg, preg = dout.region, disp.region
        dreg.mem = z3.Array(core.fresh_name("dist_out"), I_, R_)
        preg.mem = z3.Array(core.fresh_name("disp_out"), I_, R_)
        ctx.ghost["callee"] = dict(pairs=pl, npairs=npairs, dreg=dreg, preg=preg)
        return None
    return model


def assume_callee_post(ctx, j):
    """instantiate the callee's postcondition for frame j (ground instantiation of a forall-frames contract)"""
    g = ctx.ghost["callee"]
    pl, npairs = g["pairs"], g["npairs"]
    jt = term(j)
    for k in range(npairs):
        a, b = term(pl[2 * k]), term(pl[2 * k + 1])
        for c in range(3):
            ctx.ex.assume(z3.Select(g["preg"].mem, 3 * (jt * npairs + k) + c) == MI(jt, a, b, c))
        d = z3.Select(g["dreg"].mem, jt * npairs + k)
        ctx.ex.assume(z3.And(d == MILEN(jt, a, b), d >= 0, d * d == sum(MI(jt, a, b, c) * MI(jt, a, b, c) for c in range(3))))


def kernel_contract(fname, kind, periodic, callee):
    width = 3 if kind == "angle" else 4
    npairs = 2 if kind == "angle" else 3

    def harness(ctx, case):
        c = ctx.load_c("mdtraj/geometry/src/geometry.cpp", [fname], **GEOM)
        nf, na, nq = ctx.int("n_frames"), ctx.int("n_atoms"), ctx.int("n_items")
        ctx.assume(nf >= 0, na >= 1, nq >= 0)
        R = dict(xyz=Region("xyz"), idx=Region("indices", "int"), box=Region("box"), out=Region("out"), n_frames=nf, n_atoms=na)
        for nm in ("dist", "dist_mic", "dist_mic_triclinic"):
            c.call_models[nm] = dist_contract(ctx, R, npairs, periodic, nm, callee)
        I, J = ctx.int("I"), ctx.int("J")

        def o_havoc(interp, env, g):
            interp.setvar(env, "i", I)
            return [I.t >= 0]

        def o_inv(interp, env, g):
            i = interp.getvar(env, "i")
            return [("0<=i<=n", z3.And(term(i) >= 0, term(i) <= term(nq)))]

        def i_havoc(interp, env, g):
            interp.setvar(env, "j", J)
            R["out"].writes.clear()
            assume_callee_post(ctx, J)
            return [J.t >= 0]

        def i_inv(interp, env, g):
            j = interp.getvar(env, "j")
            return [("0<=j<=n_frames", z3.And(term(j) >= 0, term(j) <= term(nf)))]

        def i_end(interp, env, g):
            ctx.cover("item-frame-iteration")
            ex = ctx.ex
            t = [z3.Select(R["idx"].mem, width * term(I) + k) for k in range(width)]
            w = R["out"].writes
            ex.require("frame:exactly-one-output-cell-written", z3.BoolVal(len(w) == 1))
            ex.require("frame:inputs-untouched", z3.BoolVal(not R["xyz"].writes and not R["idx"].writes and not R["box"].writes))
            if len(w) != 1:
                return
            ex.require("written-at-out[n*j+i]", w[0][0] == term(nq) * term(J) + term(I))
            val = w[0][1]
            jt = term(J)
            vec = lambda a, b: [MI(jt, a, b, cc) for cc in range(3)]
            dot = lambda u, v: sum(x * y for x, y in zip(u, v))
            cross = lambda u, v: [u[1] * v[2] - u[2] * v[1], u[2] * v[0] - u[0] * v[2], u[0] * v[1] - u[1] * v[0]]
            if kind == "angle":
                a, b, c_ = t
                u, v = vec(b, a), vec(b, c_)          # both FROM the middle atom
                cosv = dot(u, v) / (MILEN(jt, b, a) * MILEN(jt, b, c_))
                clipped = z3.If(cosv < -1, z3.RealVal(-1), z3.If(cosv > 1, z3.RealVal(1), cosv))
                ex.require("angle=acos(clip(u.v/(|u||v|)))-with-u,v-from-the-middle-atom", val == npreal.ACOS(clipped))
                ex.require("angle-in-[0,pi]", z3.And(val >= 0, val <= npreal.PI))
            else:
                a, b, c_, d = t
                b1, b2, b3 = vec(a, b), vec(b, c_), vec(c_, d)
                p1 = dot(b1, cross(b2, b3)) * MILEN(jt, b, c_)
                p2 = dot(cross(b2, b3), cross(b1, b2))
                ex.require("dihedral=atan2(|b2|b1.(b2xb3),(b1xb2).(b2xb3))-over-consecutive-bond-vectors", val == npreal.ATAN2(p1, p2))

        c.loop_specs[(fname, 0)] = CLoopSpec(o_havoc, o_inv, exit_state=lambda i_, e, g: i_.setvar(e, "i", SInt(term(nq))))
        c.loop_specs[(fname, 1)] = CLoopSpec(i_havoc, i_inv, at_end=i_end, exit_state=lambda i_, e, g: i_.setvar(e, "j", SInt(term(nf))))
        args = [Ptr(R["xyz"], 0), Ptr(R["idx"], 0)] + ([Ptr(R["box"], 0)] if periodic else []) + [Ptr(R["out"], 0), nf, na, nq]
        out = ctx.ccall(fname, *args)
        ctx.cover("finished")
        ctx.ensure("returns-normally", out.exc is None)
    return harness


for _fname, _kind, _per, _callee in [
    ("angle", "angle", False, "dist"), ("angle_mic", "angle", True, "dist_mic"), ("angle_mic_triclinic", "angle", True, "dist_mic_triclinic"),
    ("dihedral", "dihedral", False, "dist"), ("dihedral_mic", "dihedral", True, "dist_mic"), ("dihedral_mic_triclinic", "dihedral", True, "dist_mic_triclinic"),
]:
    contract("C07", f"mdtraj/geometry/src/kernels/{_kind}kernels.h", _fname, lang="c", replay="angles", covers=["item-frame-iteration", "finished"])(
        kernel_contract(_fname, _kind, _per, _callee))


@contract("C07", "mdtraj/geometry/src/kernels/dihedralkernels.h", "lemmas:reversal+mirror", lang="c", replay="angles")
def lemmas(ctx, case):
    """spec-level lemmas (exact polynomial identities): reversing the atom order leaves p1, p2 (hence the dihedral) and the
    angle's dot product unchanged; mirroring all coordinates negates p1 and keeps p2 (dihedral negated: atan2(-p,q) = -atan2(p,q))"""
    import sympy as sp
    v1 = sp.Matrix(sp.symbols("a0:3"))
    v2 = sp.Matrix(sp.symbols("b0:3"))
    v3 = sp.Matrix(sp.symbols("c0:3"))
    L = sp.Symbol("L")  # |b2|

    def p12(x, y, z):
        c1, c2 = y.cross(z), x.cross(y)
        return x.dot(c1) * L, c1.dot(c2)
    P = p12(v1, v2, v3)
    Prev = p12(-v3, -v2, -v1)
    Pmir = p12(-v1, -v2, -v3)
    ctx.ensure("reversal:p1-unchanged", sp.expand(P[0] - Prev[0]) == 0, kind="lemma-poly")
    ctx.ensure("reversal:p2-unchanged", sp.expand(P[1] - Prev[1]) == 0, kind="lemma-poly")
    ctx.ensure("mirror:p1-negated", sp.expand(P[0] + Pmir[0]) == 0, kind="lemma-poly")
    ctx.ensure("mirror:p2-unchanged", sp.expand(P[1] - Pmir[1]) == 0, kind="lemma-poly")
    ctx.ensure("angle-reversal:u.v-symmetric", sp.expand(v1.dot(v2) - v2.dot(v1)) == 0, kind="lemma-poly")


# ---------------------------------------------------------------------------------------------
# Python side: torsion atom patterns (finite tables) and _atom_sequence on symbolic-free small topologies
from mdvc.pyinterp import Namespace, Obj, OpaqueModule  # noqa: E402

# documented definitions (IUPAC-IUB 1970; chi tables as in Lovell et al. 2000, table 1), as SETS of atom-name quartets
DOC = {
    "PHI_ATOMS": ["-C", "N", "CA", "C"],
    "PSI_ATOMS": ["N", "CA", "C", "+N"],
    "OMEGA_ATOMS": ["CA", "C", "+N", "+CA"],
    "CHI1_ATOMS": {("N", "CA", "CB", x) for x in ("CG", "CG1", "SG", "OG", "OG1")},
    "CHI2_ATOMS": {("CA", "CB", "CG", x) for x in ("CD", "CD1", "OD1", "ND1", "SD")} | {("CA", "CB", "CG1", "CD1")},
    "CHI3_ATOMS": {("CB", "CG", "CD", x) for x in ("NE", "CE", "OE1")} | {("CB", "CG", "SD", "CE")},
    "CHI4_ATOMS": {("CG", "CD", "NE", "CZ"), ("CG", "CD", "CE", "NZ")},
    "CHI5_ATOMS": {("CD", "NE", "CZ", "NH1")},
}


def _dihedral_module(ctx):
    im = ctx.interp.import_models
    im["mdtraj.geometry"] = Namespace("geometry", _geometry=OpaqueModule("_geometry"), distance=OpaqueModule("distance"))
    return ctx.module("mdtraj/geometry/dihedral.py")


@contract("C07", "mdtraj/geometry/dihedral.py", "torsion-atom-tables", replay="angles")
def torsion_tables(ctx, case):
    mod = _dihedral_module(ctx)
    for name, want in DOC.items():
        got = mod.globals.get(name)
        if isinstance(want, list):
            ctx.ensure(f"{name}==documented-pattern", got == want)
        else:
            ctx.ensure(f"{name}==documented-side-chain-definitions", isinstance(got, list) and {tuple(q) for q in got} == want and len(got) == len(want))
    ctx.ensure("parse_offsets/strip_offsets:-C->(C,-1),+N->(N,+1)",
               ctx.call(mod.globals["parse_offsets"], ["-C", "N", "+N"]).value == [-1, 0, 1]
               and ctx.call(mod.globals["_strip_offsets"], ["-C", "N", "+N"]).value == ["C", "N", "N"])


class _TopStub:
    """small concrete topology for _atom_sequence: chains -> residues -> {atom name: index}; indices are global"""

    def __init__(self, chains):
        self.chains_, k, r = [], 0, 0
        for ci, chain in enumerate(chains):
            res = []
            for names in chain:
                atoms = []
                for n in names:
                    atoms.append(Namespace("atom", name=n, index=k))
                    k += 1
                res.append(Namespace("residue", index=r, atoms=atoms))
                r += 1
            self.chains_.append(Namespace("chain", index=ci, residues=res))

    def sym_getattr(self, interp, name):
        if name == "chains":
            return self.chains_
        from mdvc.pyinterp import raise_py
        raise_py("AttributeError", name)


BB = ["N", "CA", "C", "O"]
TOPOLOGIES = {
    "one-chain-3res": [[BB, BB, BB]],
    "two-chains": [[BB, BB], [BB, BB]],
    "missing-atom": [[BB, ["N", "CA", "O"], BB]],
    "single-residue-chains": [[BB], [BB], [BB]],
}


def _expected(chains, pattern):
    """one row per residue having all atoms, neighbours from the SAME chain, in residue order"""
    import re
    offs = [(-1 if a[0] == "-" else 1 if a[0] == "+" else 0, a.lstrip("+-")) for a in pattern]
    rows, k = [], 0
    index = []
    for chain in chains:
        cres = []
        for names in chain:
            cres.append({n: k + i for i, n in enumerate(names)})
            k += len(names)
        index.append(cres)
    for cres in index:
        for ri in range(len(cres)):
            row = []
            for off, nm in offs:
                rj = ri + off
                if 0 <= rj < len(cres) and nm in cres[rj]:
                    row.append(cres[rj][nm])
                else:
                    row = None
                    break
            if row:
                rows.append(row)
    return rows


@contract("C07", "mdtraj/geometry/dihedral.py", "_atom_sequence", cases=[(t, p) for t in TOPOLOGIES for p in ("PHI_ATOMS", "PSI_ATOMS", "OMEGA_ATOMS")], replay="angles")
def atom_sequence(ctx, case):
    tname, pname = case
    import numpy as _np

    class NP:
        def sym_getattr(self, interp, name):
            return getattr(_np, name)
    ctx.interp.import_models["numpy"] = NP()
    mod = _dihedral_module(ctx)
    top = _TopStub(TOPOLOGIES[tname])
    out = ctx.call(mod.globals["_atom_sequence"], top, DOC[pname])
    ctx.ensure("no-exception", not out.raised)
    if out.raised:
        return
    rids, idx = out.value
    want = _expected(TOPOLOGIES[tname], DOC[pname])
    ctx.ensure("rows==documented-atoms-of-same-chain-neighbours-in-residue-order", [list(map(int, r)) for r in idx.tolist()] == want)


# =====================================================================================================
# Python dispatch of compute_angles / compute_dihedrals: which kernel, with which box and which `orthogonal` flag
class _AnglesArr:
    """traj.unitcell_angles (F, 3): np.allclose(., 90) is the conjunction of the per-frame orthogonality facts of the frames it covers"""
    is_ndarray = True

    def __init__(self, frames):
        self.frames = tuple(frames)

    def sym_getitem(self, interp, k):
        if isinstance(k, int):
            return _AnglesArr([self.frames[k]])
        if isinstance(k, slice):
            return _AnglesArr(self.frames[k])
        raise core.Unsupported("unitcell_angles index")

    def sym_getattr(self, interp, name):
        if name == "shape":
            return (len(self.frames), 3)
        raise core.Unsupported("unitcell_angles." + name)


def dispatch(ctx, case):
    fn, periodic, have_cell, opt = case
    from mdvc.npmodel import NumpyT
    from mdvc.pyinterp import Namespace
    from mdvc.tarr import TArr, TCond
    from mdvc.core import SBool
    from .c05 import BoxSeq, ortho

    F = 3
    calls = []

    class NP(NumpyT):
        def np_allclose(self, interp, a, b, **k):
            if isinstance(a, _AnglesArr) and b == 90:
                return SBool(z3.And(*[ortho(f) for f in a.frames]))
            raise core.Unsupported("np.allclose")

        def np_logical_and(self, interp, a, b):
            return TCond(("and", getattr(a, "key", a), getattr(b, "key", b)))

        def np_zeros(self, interp, shape, **k):
            return TArr(("zeros", core.fresh_name("out")), shape=shape)

    im = ctx.interp.import_models
    im["numpy"] = NP()
    kern = {"compute_angles": ("_angle_mic", "_angle"), "compute_dihedrals": ("_dihedral_mic", "_dihedral")}[fn]
    geom = Namespace("_geometry", **{k: (lambda *a, k=k: calls.append((k, a))) for k in kern})
    im["mdtraj.geometry"] = Namespace("geometry", _geometry=geom, distance=Namespace("distance"))
    mod = ctx.module("mdtraj/geometry/angle.py" if fn == "compute_angles" else "mdtraj/geometry/dihedral.py")
    mod.globals["ensure_type"] = lambda val, **k: val  # shape/dtype validation: not part of this contract
    ref = "_angle" if fn == "compute_angles" else "_dihedral"
    mod.globals[ref] = lambda *a: calls.append(("python:" + ref, a))
    xyz = TArr("xyz", shape=(F, 9, 3))
    idx = TArr("indices", shape=(2, 3 if fn == "compute_angles" else 4), dtype="int32")

    class Traj:
        pass
    t = Traj()
    t.xyz, t.n_atoms, t._have_unitcell = xyz, 9, have_cell
    t.unitcell_vectors = BoxSeq(F) if have_cell else None
    t.unitcell_angles = _AnglesArr(range(F)) if have_cell else None
    out = ctx.call(mod.globals[fn], t, idx, periodic=periodic, opt=opt)
    if out.raised:
        ctx.ensure("only-the-index-range-check-may-refuse", out.exc.name == "ValueError" and not calls)
        return
    ctx.cover("kernel-called")
    ctx.ensure("exactly-one-kernel-call", len(calls) == 1)
    if len(calls) != 1:
        return
    name, a = calls[0]
    mic = periodic and have_cell
    if opt:
        ctx.ensure("periodic-and-cell-present<=>minimum-image-kernel", name == (kern[0] if mic else kern[1]))
    else:
        ctx.ensure("opt=False:reference-implementation-with-the-caller's-periodic-flag", name == "python:" + ref and a[2] is periodic)
    if opt and mic and name == kern[0]:
        b, flag = a[2], a[4]
        ctx.ensure("box-transposed-exactly-once-and-copied", isinstance(b, BoxSeq) and b.transposed == 1 and b.copied)
        ctx.ensure("orthorhombic-kernel-iff-EVERY-frame-is-orthogonal", core.as_bool_term(flag) == z3.And(*[ortho(f) for f in range(F)]))
    if opt:
        ctx.ensure("coordinates-and-indices-passed-unchanged", a[0] is xyz and a[1] is idx)


contract("C07", "mdtraj/geometry/", "compute_angles|compute_dihedrals(dispatch)", cases=[(f, p, c, o) for f in ("compute_angles", "compute_dihedrals") for p in (True, False) for c in (True, False) for o in (True, False)],
         replay="angles", covers=["kernel-called"])(dispatch)
