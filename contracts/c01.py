"""C01 -- save then load reproduces the trajectory: writer call-site obligations of every save_*.

For each saver: the arguments that reach `f.write` are the trajectory's fields converted to the
format's NATIVE unit (native units from the format specifications, table in trajmodel.NATIVE_UNIT;
the class attribute `distance_unit` of the real file class must agree with it), angles and times
unconverted, frame i of every per-frame field travelling with frame i, and the input trajectory
is not modified.  The same harness yields the C20 clause "every (numbered) file is opened with the
caller's own force_overwrite".
"""
import z3

from mdvc import core
from mdvc.core import SBool, Unsupported
from mdvc.tarr import TArr
from mdvc.verify import contract

from . import trajmodel as TM

# saver -> (file class, how write() must be fed).  Source names: xyz, time, lengths, angles, vectors.
# ("kw", name) or ("pos", i) identifies the argument; second item: (source, scaled_by_unit_factor)
SAVERS = {
    "save_xtc": ("XTCTrajectoryFile", {("kw", "xyz"): ("xyz", True), ("kw", "time"): ("time", False), ("kw", "box"): ("vectors", True)}),
    "save_trr": ("TRRTrajectoryFile", {("kw", "xyz"): ("xyz", True), ("kw", "time"): ("time", False), ("kw", "box"): ("vectors", True)}),
    "save_dcd": ("DCDTrajectoryFile", {("kw", "xyz"): ("xyz", True), ("kw", "cell_lengths"): ("lengths", True), ("kw", "cell_angles"): ("angles", False)}),
    "save_dtr": ("DTRTrajectoryFile", {("kw", "xyz"): ("xyz", True), ("kw", "cell_lengths"): ("lengths", True), ("kw", "cell_angles"): ("angles", False), ("kw", "times"): ("time", False)}),
    "save_hdf5": ("HDF5TrajectoryFile", {("kw", "coordinates"): ("xyz", True), ("kw", "time"): ("time", False), ("kw", "cell_lengths"): ("lengths", True), ("kw", "cell_angles"): ("angles", False)}),
    "save_netcdf": ("NetCDFTrajectoryFile", {("kw", "coordinates"): ("xyz", True), ("kw", "time"): ("time", False), ("kw", "cell_lengths"): ("lengths", True), ("kw", "cell_angles"): ("angles", False)}),
    "save_mdcrd": ("MDCRDTrajectoryFile", {("kw", "xyz"): ("xyz", True), ("kw", "cell_lengths"): ("lengths", True)}),
    "save_lammpstrj": ("LAMMPSTrajectoryFile", {("kw", "xyz"): ("xyz", True), ("kw", "cell_lengths"): ("lengths", True), ("kw", "cell_angles"): ("angles", False)}),
    "save_xyz": ("XYZTrajectoryFile", {("kw", "xyz"): ("xyz", True)}),
    "save_gro": ("GroTrajectoryFile", {("pos", 0): ("xyz", True), ("pos", 2): ("time", False), ("pos", 3): ("vectors", True)}),
}
PER_FRAME = {
    "save_pdb": ("PDBTrajectoryFile", {("pos", 0): ("xyz", True), ("kw", "unitcell_lengths"): ("lengths", True), ("kw", "unitcell_angles"): ("angles", False)}),
    "save_netcdfrst": ("AmberNetCDFRestartFile", {("kw", "coordinates"): ("xyz", True), ("kw", "time"): ("time", False), ("kw", "cell_lengths"): ("lengths", True), ("kw", "cell_angles"): ("angles", False)}),
    "save_amberrst7": ("AmberRestartFile", {("kw", "coordinates"): ("xyz", True), ("kw", "time"): ("time", False), ("kw", "cell_lengths"): ("lengths", True), ("kw", "cell_angles"): ("angles", False)}),
}


def _source(ctx, t, what):
    I = ctx.interp
    if what == "xyz":
        return t.fields["_xyz"]
    if what == "time":
        return t.fields["_time"]
    if what == "lengths":
        return t.fields["_unitcell_lengths"]
    if what == "angles":
        return t.fields["_unitcell_angles"]
    if what == "vectors":
        return I.getattr(t, "unitcell_vectors")  # the real getter (under contract in C17)
    raise KeyError(what)


def _frame(x, i, F):
    """frame i of a per-frame field as the *value* term (normal form)"""
    if x is None:
        return None
    return x.sym_getitem(None, i)


def _getarg(call, key):
    args, kwargs = call
    if key[0] == "kw":
        if key[1] in kwargs:
            return True, kwargs[key[1]]
        return False, None
    if key[1] < len(args):
        return True, args[key[1]]
    return False, None


def _same(actual, expected, k):
    if expected is None:
        return actual is None
    if not isinstance(actual, TArr):
        return False
    e = expected.derive(scale=expected.scale * k)
    return actual.nf() == e.nf()


def saver_harness(prop):
    def run(ctx, case):
        saver, F, cell = case
        log = []
        TM.install_trajectory_env(ctx, log, ctx.interp.repo)
        t, mod = TM.make_traj(ctx, F, 5, cell=cell)
        before = {k: (v, v.nf() if isinstance(v, TArr) else None) for k, v in t.fields.items()}
        fo = ctx.bool("force_overwrite")
        # np.all(angles == 90) in save_mdcrd etc. is a free symbolic boolean
        out = ctx.call_method(t, saver, "/ghost/out.ext", force_overwrite=fo)
        table = {**SAVERS, **PER_FRAME}
        cls, spec = table[saver]
        if out.raised:
            # refusal paths (e.g. mdcrd with non-rectilinear cell) must not have opened anything
            ctx.cover("refused")
            # every trajectory of the quantifier (any cell, or none) must be saveable; the only refusals allowed are the
            # documented ValueError ones (negative cell entries, non-rectilinear cell for mdcrd), raised before any file is opened
            ctx.ensure("save-succeeds-or-documented-refusal", out.exc.name == "ValueError" and len(log) == 0)
            return
        ctx.cover("saved")
        per_frame = saver in PER_FRAME
        n_files = F if (per_frame and saver != "save_pdb" and F > 1) else 1
        if prop == "C20":
            ctx.ensure("one-constructor-call-per-file", len(log) == n_files)
            names = []
            for rec in log:
                a = rec["args"]
                kw = rec["kwargs"]
                mode = a[1] if len(a) > 1 else kw.get("mode")
                ctx.ensure("opened-in-mode-w", mode == "w")
                f = kw.get("force_overwrite", a[2] if len(a) > 2 else None)
                ctx.ensure("callers-force_overwrite-passed-through", f is fo)
                names.append(a[0])
            ctx.ensure("distinct-numbered-filenames", len(set(map(str, names))) == len(names))
            if n_files > 1:
                width = len(str(F))
                ctx.ensure("numbered-names-are-filename.N", [str(x) for x in names] == [f"/ghost/out.ext.{i + 1:0{width}d}" for i in range(F)])
            return
        # ---- C01 clauses
        ctx.ensure("format-native-distance-unit", TM.real_distance_unit(ctx.interp.repo, cls) == TM.NATIVE_UNIT[cls])
        k_unit = TM.FACTOR_FROM_NM[TM.NATIVE_UNIT[cls]]
        ctx.ensure("one-constructor-call-per-file", len(log) == n_files)
        writes = [w for rec in log for w in rec["writes"]]
        n_writes = F if per_frame and (saver == "save_pdb" or F > 1) else 1
        ctx.ensure("one-write-per-frame-or-file", len(writes) == n_writes)
        for wi, call in enumerate(writes):
            for key, (src, scaled) in spec.items():
                s = _source(ctx, t, src)
                if src in ("lengths", "angles", "vectors") and not cell:
                    exp = None
                else:
                    exp = s
                    if per_frame and exp is not None:
                        single = (F == 1 and saver != "save_pdb")
                        if single and src == "time":
                            exp = _frame(exp, 0, F)  # a single-frame restart stores the scalar time of frame 0
                        elif not single:
                            exp = _frame(exp, wi, F)
                present, val = _getarg(call, key)
                if exp is None:
                    ctx.ensure(f"{src}-absent-when-no-cell", (not present) or val is None)
                else:
                    ctx.ensure(f"{src}-is-frame-i-of-the-trajectory-in-native-units",
                               present and _same(val, exp, k_unit if scaled else 1.0))
        # the input is not modified
        for kf, (obj, nf) in before.items():
            ctx.ensure(f"input-unchanged:{kf}", t.fields[kf] is obj and (nf is None or obj.nf() == nf))
        for rec in log:
            ctx.ensure("file-closed", rec["closed"])

    return run


_cases = [(s, F, c) for s in list(SAVERS) + list(PER_FRAME) for F in (1, 3) for c in (True, False)]
# savers that require a complete cell only matter with one; all are run with and without
contract("C01", "mdtraj/core/trajectory.py", "Trajectory.save_*", cases=_cases, covers=["saved"],
         replay="saveload", max_paths=200)(saver_harness("C01"))


@contract("C01", "mdtraj/core/trajectory.py", "Trajectory._savers", replay="saveload")
def savers_table(ctx, case):
    """dispatch: each documented extension maps to the saver of that format"""
    log = []
    TM.install_trajectory_env(ctx, log, ctx.interp.repo)
    t, mod = TM.make_traj(ctx, 2, 3)
    out = ctx.call_method(t, "_savers")
    want = {".xtc": "save_xtc", ".trr": "save_trr", ".pdb": "save_pdb", ".pdb.gz": "save_pdb", ".dcd": "save_dcd",
            ".h5": "save_hdf5", ".nc": "save_netcdf", ".netcdf": "save_netcdf", ".ncdf": "save_netcdf",
            ".ncrst": "save_netcdfrst", ".crd": "save_mdcrd", ".mdcrd": "save_mdcrd", ".lammpstrj": "save_lammpstrj",
            ".xyz": "save_xyz", ".xyz.gz": "save_xyz", ".gro": "save_gro", ".rst7": "save_amberrst7", ".dtr": "save_dtr"}
    ctx.ensure("no-exception", not out.raised)
    if out.raised:
        return
    got = {k: getattr(v.func, "qualname", "?").split(".")[-1] for k, v in out.value.items()}
    for ext, name in want.items():
        ctx.ensure(f"extension{ext}->{name}", got.get(ext) == name)
