"""C19 -- incremental writing equals one-shot writing (writer representation invariant) and refusal
leaves the file unchanged.

Ghost writable file  W = (schema, frames per stored field).  Rep(h): `_frame_index` == number of
frames in every stored field; the stored fields are exactly the schema fixed by the first accepted
write.  For one `write(batch)` on an arbitrary state satisfying Rep (symbolic frame count `n0`,
symbolic batch length `n`):
  accepted (batch fields == schema, atom count equal):  every stored field' = field ++ batch field,
     `_frame_index' = n0 + n`, Rep again  =>  by induction ANY partition of the same frames into write
     calls gives the same W as a single call;
  refused (fields differ from the schema / atom count differs): ValueError AND every stored field
     unchanged (exceptional postcondition) -- this is where append-then-check code fails;
  HDF5: the write ends with flush().
"""
import itertools

import z3

from mdvc import core
from mdvc.core import SInt, Unsupported
from mdvc.pyinterp import EXC, ExcClass, ExcInst, Namespace, Obj, OpaqueModule, PyExc
from mdvc.tarr import TArr
from mdvc.verify import contract

OPT = ("time", "cell")  # optional parts of the schema


class Sink:
    """attribute sink (root._v_attrs, node.attrs, dataset attributes)"""

    def __init__(self):
        self.d = {}

    def sym_getattr(self, interp, name):
        if name in self.d:
            return self.d[name]
        from mdvc.pyinterp import raise_py
        raise_py("AttributeError", name)

    def sym_setattr(self, interp, name, v):
        self.d[name] = v

    def sym_setitem(self, interp, k, v):
        self.d[k] = v

    def sym_getitem(self, interp, k):
        return self.d[k]


class WNode:
    """A stored extendable array: `count` frames so far (symbolic), appended batches logged."""

    def __init__(self, name, count, n_atoms=None):
        self.name = name
        self.count0 = count
        self.count = count
        self.n_atoms = n_atoms
        self.batches = []
        self.attrs = Sink()

    # PyTables EArray.append
    def append(self, x):
        if self.n_atoms is not None and len(x.shape) == 3:
            ok = core.current().branch(core.term(x.shape[1]) == core.term(self.n_atoms))
            if not ok:
                raise PyExc(ExcInst(EXC["ValueError"], ("the shapes of the appended object and the array do not match",)))
        self.batches.append(("append", x))
        self.count = self.count + x.shape[0]

    def sym_getattr(self, interp, name):
        if name == "append":
            return self.append
        if name == "attrs":
            return self.attrs
        if name == "shape":
            return (self.count, self.n_atoms, 3)
        raise Unsupported("node." + name)

    def sym_len(self, interp):
        return self.count

    def sym_setattr(self, interp, name, v):
        self.attrs.d[name] = v

    # netCDF variable[frame_slice, ...] = x  on the unlimited dimension
    def sym_setitem(self, interp, k, v):
        fk = k[0] if isinstance(k, tuple) else k
        if isinstance(fk, int):
            return  # label variables (cell_spatial etc.)
        if self.n_atoms is not None and isinstance(v, TArr) and len(v.shape) == 3:
            ok = core.current().branch(core.term(v.shape[1]) == core.term(self.n_atoms))
            if not ok:
                raise PyExc(ExcInst(EXC["ValueError"], ("shape mismatch",)))
        self.batches.append(("assign", fk.start, fk.stop, v))
        # assignment on the unlimited dimension extends it to max(count, stop)
        self.count = core.smax(self.count, fk.stop)


class H5W:
    def __init__(self, nodes, NoSuch):
        self.nodes = nodes
        self.NoSuch = NoSuch
        self.flushed = 0
        self.events = []
        self.root = RootNS(self)

    def sym_getattr(self, interp, name):
        if name == "root":
            return self.root
        if name == "get_node":
            def get_node(where="/", name=None):
                if name in self.nodes:
                    return self.nodes[name]
                raise PyExc(ExcInst(self.NoSuch, (name,)))
            return get_node
        if name == "create_earray":
            def create(where="/", name=None, atom=None, shape=None, **k):
                self.nodes[name] = WNode(name, 0, n_atoms=shape[1] if len(shape) == 3 else None)
                self.events.append(("create", name))
                return self.nodes[name]
            return create
        if name == "flush":
            def fl():
                self.flushed += 1
                self.events.append(("flush",))
            return fl
        raise Unsupported("h5 handle." + name)


class RootNS:
    def __init__(self, h):
        self.h = h
        self._v_attrs = Sink()

    def sym_getattr(self, interp, name):
        if name == "_v_attrs":
            return self._v_attrs
        if name in self.h.nodes:
            return self.h.nodes[name]
        raise PyExc(ExcInst(self.h.NoSuch, (name,)))


def schema_cases():
    # (initialised?, file-has-time, file-has-cell, batch-has-time, batch-has-cell, same-atom-count)
    out = []
    for init in (False, True):
        for ft, fc, bt, bc in itertools.product((True, False), repeat=4):
            if not init and (ft, fc) != (bt, bc):
                continue  # first write defines the schema
            for same in ((True, False) if init else (True,)):
                out.append((init, ft, fc, bt, bc, same))
    return out


def batch(ctx, n, A, bt, bc):
    kw = {}
    kw["coordinates"] = TArr("batch.xyz", shape=(n, A, 3))
    kw["time"] = TArr("batch.time", shape=(n,)) if bt else None
    kw["cell_lengths"] = TArr("batch.lengths", shape=(n, 3), dtype="float32") if bc else None
    kw["cell_angles"] = TArr("batch.angles", shape=(n, 3), dtype="float32") if bc else None
    return kw


def check_writer(ctx, h, nodes_before, nodes_now, case, out, n0, n, kw, posfield, names):
    init, ft, fc, bt, bc, same = case
    accept = (not init) or ((ft, fc) == (bt, bc))
    if accept and same:
        ctx.cover("accepted")
        ctx.ensure("accepted-batch:no-exception", not out.raised)
        if out.raised:
            return
        ctx.ensure("position==frames-written", core.term(h.fields[posfield]) == core.term(n0 + n))
        present = ["coordinates"] + (["time"] if bt else []) + (["cell_lengths", "cell_angles"] if bc else [])
        ctx.ensure("stored-fields-are-the-schema", sorted(k for k in nodes_now if k in names) == sorted(present))
        for f in present:
            node = nodes_now[f]
            ctx.ensure(f"{f}:one-batch-appended", len(node.batches) == 1)
            if len(node.batches) != 1:
                continue
            b = node.batches[0]
            ctx.ensure(f"{f}:appended-value-is-the-batch-field", b[-1].same_value(kw[f]))
            if b[0] == "assign":
                ctx.ensure(f"{f}:written-at-[n0,n0+n)", z3.And(core.term(b[1]) == core.term(n0), core.term(b[2]) == core.term(n0 + n)))
            ctx.ensure(f"{f}:length==n0+n (Rep)", core.term(node.count) == core.term(n0 + n))
    else:
        ctx.cover("refused")
        ctx.ensure("ragged-batch:refused-with-ValueError", out.raised and out.exc.name == "ValueError")
        for f, node in nodes_before.items():
            ctx.ensure(f"refusal-leaves-{f}-unchanged", len(node.batches) == 0 and core.term(node.count) == core.term(node.count0))
        ctx.ensure("refusal-leaves-position", core.term(h.fields[posfield]) == core.term(n0))
        ctx.ensure("refusal-creates-no-field", sorted(nodes_now) == sorted(nodes_before))


@contract("C19", "mdtraj/formats/hdf5.py", "HDF5TrajectoryFile.write", cases=schema_cases(), covers=["accepted", "refused"],
          replay="writer:h5")
def h5_write(ctx, case):
    init, ft, fc, bt, bc, same = case
    mod = ctx.module("mdtraj/formats/hdf5.py")
    ctx.interp.import_models["mdtraj"] = Namespace("mdtraj", __version__="x")
    mod = ctx.module("mdtraj/formats/hdf5.py")
    n0, n, A = ctx.int("n0"), ctx.int("n"), ctx.int("A")
    ctx.assume(n0 >= 0, n >= 1, A >= 1)
    A2 = A if same else ctx.int("A2")
    if not same:
        ctx.assume(A2 >= 1, A2 != A)
    NoSuch = ExcClass("NoSuchNodeError", [EXC["Exception"]])
    nodes = {}
    if init:
        nodes["coordinates"] = WNode("coordinates", n0, n_atoms=A)
        if ft:
            nodes["time"] = WNode("time", n0)
        if fc:
            nodes["cell_lengths"] = WNode("cell_lengths", n0)
            nodes["cell_angles"] = WNode("cell_angles", n0)
    else:
        ctx.assume(n0 == 0)
    handle = H5W(nodes, NoSuch)
    h = Obj(mod.globals["HDF5TrajectoryFile"])
    tables = Namespace("tables", NoSuchNodeError=NoSuch, Float32Atom=lambda: "f32")
    h.fields.update(_open=True, mode="w", _frame_index=n0, _needs_initialization=not init, _handle=handle, tables=tables)
    before = dict(nodes)
    kw = batch(ctx, n, A2, bt, bc)
    out = ctx.call_method(h, "write", **kw)
    names = ["coordinates", "time", "cell_lengths", "cell_angles"]
    check_writer(ctx, h, before, handle.nodes, case, out, n0, n, kw, "_frame_index", names)
    if not out.raised:
        ctx.ensure("write-ends-with-flush", handle.events and handle.events[-1] == ("flush",))


class NCW:
    """netCDF4.Dataset / scipy netcdf_file opened for writing"""

    def __init__(self, variables, n_atoms):
        self.variables = variables
        self.n_atoms = n_atoms
        self.dimensions = {}
        self.attrs = {}
        self.synced = 0

    def sym_getattr(self, interp, name):
        if name == "variables":
            return self.variables
        if name == "dimensions":
            return self.dimensions
        if name == "createDimension":
            return lambda name, size: self.dimensions.__setitem__(name, size)
        if name == "createVariable":
            def cv(name, typ, dims):
                self.variables[name] = WNode(name, 0, n_atoms=self.dimensions.get("atom") if name == "coordinates" else None)
                return self.variables[name]
            return cv
        if name == "sync":
            def sync():
                self.synced += 1
            return sync
        raise Unsupported("nc handle." + name)

    def sym_setattr(self, interp, name, v):
        self.attrs[name] = v


@contract("C19", "mdtraj/formats/netcdf.py", "NetCDFTrajectoryFile.write", cases=schema_cases(), covers=["accepted", "refused"],
          replay="writer:nc")
def nc_write(ctx, case):
    init, ft, fc, bt, bc, same = case
    im = ctx.interp.import_models
    im["mdtraj"] = Namespace("mdtraj", __version__="x")
    im["datetime"] = Namespace("datetime", datetime=Namespace("dt", now=lambda: "now"))
    im["socket"] = Namespace("socket", gethostname=lambda: "host")
    mod = ctx.module("mdtraj/formats/netcdf.py")
    n0, n, A = ctx.int("n0"), ctx.int("n"), ctx.int("A")
    ctx.assume(n0 >= 0, n >= 1, A >= 1)
    A2 = A if same else ctx.int("A2")
    if not same:
        ctx.assume(A2 >= 1, A2 != A)
    variables = {}
    if init:
        variables["coordinates"] = WNode("coordinates", n0, n_atoms=A)
        if ft:
            variables["time"] = WNode("time", n0)
        if fc:
            variables["cell_lengths"] = WNode("cell_lengths", n0)
            variables["cell_angles"] = WNode("cell_angles", n0)
    else:
        ctx.assume(n0 == 0)
    handle = NCW(variables, A)
    h = Obj(mod.globals["NetCDFTrajectoryFile"])
    h.fields.update(_closed=False, _mode="w", _frame_index=n0, _needs_initialization=not init, _handle=handle)
    names = ["coordinates", "time", "cell_lengths", "cell_angles"]
    before = {k: v for k, v in variables.items() if k in names}
    kw = batch(ctx, n, A2, bt, bc)
    if bc:
        kw["cell_lengths"].dtype = "float64"
        kw["cell_angles"].dtype = "float64"
    out = ctx.call_method(h, "write", **kw)
    now = {k: v for k, v in handle.variables.items() if k in names}
    check_writer(ctx, h, before, now, case, out, n0, n, kw, "_frame_index", names)


@contract("C19", "mdtraj/formats/hdf5.py", "HDF5TrajectoryFile.flush", replay="writer:h5")
def h5_flush(ctx, case):
    mod = ctx.module("mdtraj/formats/hdf5.py")
    NoSuch = ExcClass("NoSuchNodeError", [EXC["Exception"]])
    handle = H5W({}, NoSuch)
    h = Obj(mod.globals["HDF5TrajectoryFile"])
    h.fields.update(_open=True, mode="w", _handle=handle)
    out = ctx.call_method(h, "flush")
    ctx.ensure("flush-calls-the-library-flush-on-the-open-handle", (not out.raised) and handle.flushed == 1)


@contract("C19", "mdtraj/formats/netcdf.py", "NetCDFTrajectoryFile.flush", replay="writer:nc")
def nc_flush(ctx, case):
    mod = ctx.module("mdtraj/formats/netcdf.py")
    handle = NCW({}, 3)
    h = Obj(mod.globals["NetCDFTrajectoryFile"])
    h.fields.update(_closed=False, _mode="w", _handle=handle)
    out = ctx.call_method(h, "flush")
    ctx.ensure("flush-calls-sync-on-the-open-handle", (not out.raised) and handle.synced == 1)
