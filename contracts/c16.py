"""C16 -- derived descriptors equal their defining formulas: compute_contacts (mdtraj/geometry/contact.py).

The real function is executed with NumPy doing the array plumbing on object arrays (mdvc/npobj.py); `md.compute_distances`
is replaced by its contract (spec terms DIST(periodic, frame, a, b) > 0).  The topology is a fixed one with UNEQUAL residue
sizes (a 4-atom ALA, a 3-atom GLY, a one-atom ion, a 5-atom SER, a 2-atom ALA, a water in a second chain), so every offset of
the flattened atom-pair bookkeeping is exercised; the distances are symbolic (bounded in shape, complete in the values):

   for every returned label (r0, r1) and frame f:  value = min (or beta / log sum exp(beta / d)) over EXACTLY the atom pairs
   the scheme designates for (r0, r1):  members(r0) x members(r1)  with members = all / heavy / side-chain / heavy side-chain
   (GLY: side-chain hydrogen) atoms, or the two CA atoms;  labels are the requested pairs in order ('all': i < j-2, same chain,
   both with a CA);  every distance is measured with the caller's `periodic` flag.
"""
import itertools

import numpy as np
import z3

from mdvc import core, npobj
from mdvc.core import SReal, rterm, term
from mdvc.pyinterp import Namespace
from mdvc.verify import contract

DIST = z3.Function("DIST", z3.BoolSort(), z3.IntSort(), z3.IntSort(), z3.IntSort(), z3.RealSort())
HYDROGEN = "element:H"


class Atom:
    def __init__(self, index, name, element, is_sidechain):
        self.index, self.name, self.element, self.is_sidechain = index, name, element, is_sidechain


class Residue:
    def __init__(self, index, name, chain, atoms):
        self.index, self.name, self.chain, self.atoms = index, name, chain, atoms


class Top:
    def __init__(self, residues):
        self._res = residues

    @property
    def residues(self):
        return iter(self._res)

    def residue(self, i):
        return self._res[int(i)]

    @property
    def n_residues(self):
        return len(self._res)


class Traj:
    def __init__(self, top, n_frames):
        self.topology = self.top = top
        self.n_frames = n_frames
        self.n_residues = top.n_residues

    def __len__(self):
        return self.n_frames


SPEC = [("ALA", "A", [("N", "N", 0), ("CA", "C", 0), ("CB", "C", 1), ("HB1", "H", 1)]),
        ("GLY", "A", [("N", "N", 0), ("CA", "C", 0), ("HA2", "H", 1)]),
        ("NA", "A", [("NA", "Na", 0)]),
        ("SER", "A", [("N", "N", 0), ("CA", "C", 0), ("OG", "O", 1), ("HG", "H", 1), ("C", "C", 0)]),
        ("ALA", "A", [("CA", "C", 0), ("CB", "C", 1)]),
        ("HOH", "B", [("O", "O", 0), ("H1", "H", 0), ("H2", "H", 0)])]


def build_top():
    res, k = [], 0
    for ri, (name, chain, atoms) in enumerate(SPEC):
        al = []
        for (an, el, sc) in atoms:
            al.append(Atom(k, an, HYDROGEN if el == "H" else "element:" + el, bool(sc)))
            k += 1
        res.append(Residue(ri, name, chain, al))
    return Top(res)


def members(top, scheme):
    out = []
    for r in top._res:
        if scheme == "closest":
            out.append([a.index for a in r.atoms])
        elif scheme == "closest-heavy":
            out.append([a.index for a in r.atoms if a.element != HYDROGEN])
        elif scheme == "sidechain":
            out.append([a.index for a in r.atoms if a.is_sidechain])
        elif scheme == "sidechain-heavy":
            out.append([a.index for a in r.atoms if a.is_sidechain and (a.element != HYDROGEN or r.name == "GLY")])
        elif scheme == "ca":
            out.append([a.index for a in r.atoms if a.name.lower() == "ca"])
    return out


def setup(ctx, n_frames, calls):
    ex = ctx.ex
    interp = ctx.interp
    interp.import_models["numpy"] = npobj.NumpyO()

    def compute_distances(traj, pairs, periodic=True, opt=True):
        pairs = [tuple(int(x) for x in p) for p in pairs]
        calls.append((pairs, periodic))
        per = core.as_bool_term(periodic)

        def cell(f, k):
            a, b = pairs[k]
            t = DIST(per, f, a, b)
            ex.assume(t > 0)
            return SReal(t)
        return npobj.oarr((n_frames, len(pairs)), cell)

    interp.import_models["mdtraj"] = Namespace("mdtraj", compute_distances=compute_distances)
    interp.import_models["mdtraj.core"] = Namespace("mdtraj.core", element=Namespace("element", hydrogen=HYDROGEN))
    return ctx.module("mdtraj/geometry/contact.py")


EXPLICIT = [(0, 4), (1, 3), (2, 4), (3, 0), (4, 1)]
CASES = [(s, c, sm) for s in ("closest", "closest-heavy", "sidechain", "sidechain-heavy", "ca") for c in ("explicit", "all") for sm in (False, True)
         if not (s == "ca" and sm) and not (s == "closest" and c == "all")]


def compute_contacts(ctx, case):
    scheme, contacts, soft = case
    import os

    n_frames = 2 if os.environ.get("MDVC_TIER") == "thorough" else 1
    calls = []
    mod = setup(ctx, n_frames, calls)
    top = build_top()
    traj = Traj(top, n_frames)
    periodic = ctx.bool("periodic")
    beta = ctx.real("soft_min_beta")
    ctx.assume(beta > 0)
    # precondition: every explicitly requested residue has at least one atom designated by the scheme (otherwise the
    # function refuses with ValueError -- there is no minimum over an empty set)
    mem0 = members(top, scheme)
    explicit = [p for p in EXPLICIT if scheme == "ca" or (mem0[p[0]] and mem0[p[1]])]
    arg = "all" if contacts == "all" else [list(p) for p in explicit]
    out = ctx.call(mod.globals["compute_contacts"], traj, contacts=arg, scheme=scheme, ignore_nonprotein=True, periodic=periodic, soft_min=soft, soft_min_beta=beta)
    ctx.ensure("no-exception", not out.raised)
    if out.raised:
        return
    ctx.cover("returned")
    dist, labels = out.value
    labels = [tuple(int(x) for x in p) for p in np.asarray(labels)]
    mem = members(top, scheme)
    if contacts == "all":
        has_ca = [any(a.name.lower() == "ca" for a in r.atoms) for r in top._res]
        want = [(i, j) for i in range(top.n_residues) for j in range(i + 3, top.n_residues) if has_ca[i] and has_ca[j] and top._res[i].chain == top._res[j].chain]
    else:
        want = [p for p in explicit if scheme != "ca" or (len(mem[p[0]]) == 1 and len(mem[p[1]]) == 1)]
    ctx.ensure("labels:the-requested-residue-pairs-in-order('all':j>=i+3,same-chain,both-with-CA)", z3.BoolVal(labels == want))
    ctx.ensure("shape:(n_frames,n_labels)", z3.BoolVal(np.asarray(dist, dtype=object).shape == (n_frames, len(labels))))
    for (_pairs, per) in calls:
        ctx.ensure("every-distance-is-measured-with-the-caller's-periodic-flag", z3.BoolVal(per is periodic))
    per = core.as_bool_term(periodic)
    if np.asarray(dist, dtype=object).shape != (n_frames, len(labels)):
        return
    for k, (r0, r1) in enumerate(labels):
        designated = list(itertools.product(mem[r0], mem[r1]))
        ctx.ensure(f"pair{k}({r0},{r1}):designated-atom-pairs-exist", z3.BoolVal(len(designated) >= 1))
        for f in range(n_frames):
            v = rterm(dist[f][k]) if core.is_sym(dist[f][k]) else z3.RealVal(repr(float(dist[f][k])))
            ds = [DIST(per, f, a, b) for (a, b) in designated]
            if not ds:
                continue
            if not soft:
                ctx.ensure(f"pair{k}({r0},{r1}):value<=every-designated-atom-pair-distance", z3.And(*[v <= d for d in ds]))
                ctx.ensure(f"pair{k}({r0},{r1}):value-is-one-of-the-designated-atom-pair-distances", z3.Or(*[v == d for d in ds]))
            else:
                s = sum(npobj.EXP(rterm(beta) / d) for d in ds)
                ctx.ensure(f"pair{k}({r0},{r1}):value=beta/log(sum(exp(beta/d)))-over-the-designated-atom-pairs", v == rterm(beta) / npobj.LOG(s))


contract("C16", "mdtraj/geometry/contact.py", "compute_contacts", cases=CASES, replay="contacts", covers=["returned"], max_paths=200)(compute_contacts)


# =====================================================================================================
def compute_rdf(ctx, case):
    """g(r_k) = N_k / ( n_pairs * sum_f 1/V_f * 4/3 pi (e_{k+1}^3 - e_k^3) ),  r_k = (e_k + e_{k+1})/2, N_k = number of
    (frame, pair) distances in bin k (NumPy's histogram convention); distances with the caller's periodic flag; fixed shape
    2 frames x 2 pairs x 3 bins, symbolic distances and cell volumes."""
    import math

    ex = ctx.ex
    interp = ctx.interp
    interp.import_models["numpy"] = npobj.NumpyO()
    n_frames, pairs, rng, nb = 2, [(0, 1), (2, 3)], (0.1, 0.7), 3
    calls = []

    def compute_distances(traj, p, periodic=True, opt=True):
        p = [tuple(int(x) for x in q) for q in p]
        calls.append((p, periodic))
        per = core.as_bool_term(periodic)

        def cell(f, k):
            t = DIST(per, f, *p[k])
            ex.assume(t > 0)
            return SReal(t)
        return npobj.oarr((n_frames, len(p)), cell)

    interp.import_models["mdtraj.geometry.distance"] = Namespace("distance", compute_distances=compute_distances, compute_distances_t=None)
    mod = ctx.module("mdtraj/geometry/rdf.py")
    V = [ctx.real(f"V{f}") for f in range(n_frames)]
    ctx.assume(*[v > 0 for v in V])

    class T:
        n_frames = 2
        unitcell_volumes = npobj.oarr((n_frames,), lambda f: V[f])

    periodic = ctx.bool("periodic")
    out = ctx.call(mod.globals["compute_rdf"], T(), np.array(pairs), r_range=rng, n_bins=nb, periodic=periodic)
    ctx.ensure("no-exception", not out.raised)
    if out.raised:
        return
    ctx.cover("returned")
    r, g = out.value
    edges = np.linspace(rng[0], rng[1], nb + 1)
    ctx.ensure("r=bin-centres", z3.BoolVal(len(r) == nb and all(abs(float(r[k]) - 0.5 * (edges[k] + edges[k + 1])) < 1e-12 for k in range(nb))))
    ctx.ensure("distances-of-the-requested-pairs-with-the-caller's-periodic-flag", z3.BoolVal(len(calls) == 1 and calls[0][0] == pairs and calls[0][1] is periodic))
    per = core.as_bool_term(periodic)
    inv = sum(1 / rterm(v) for v in V)
    for k in range(nb):
        cnt = []
        for f in range(n_frames):
            for (a, b) in pairs:
                d = DIST(per, f, a, b)
                right = (d <= z3.RealVal(repr(float(edges[k + 1])))) if k == nb - 1 else (d < z3.RealVal(repr(float(edges[k + 1]))))
                cnt.append(z3.If(z3.And(d >= z3.RealVal(repr(float(edges[k]))), right), 1, 0))
        shell = z3.RealVal(repr(4.0 / 3.0)) * z3.RealVal(repr(math.pi)) * z3.RealVal(repr(float(edges[k + 1] ** 3 - edges[k] ** 3)))
        ctx.ensure(f"g[{k}]*n_pairs*sum(1/V_f)*shell-volume=count(to-1e-9-in-the-shell-volume)",
                   z3.And(rterm(g[k]) * len(pairs) * inv * shell - z3.ToReal(z3.Sum(cnt)) <= z3.RealVal("1e-9") * z3.ToReal(z3.Sum(cnt)),
                          z3.ToReal(z3.Sum(cnt)) - rterm(g[k]) * len(pairs) * inv * shell <= z3.RealVal("1e-9") * z3.ToReal(z3.Sum(cnt))))


contract("C16", "mdtraj/geometry/rdf.py", "compute_rdf", cases=["2x2x3"], replay="rdf", covers=["returned"], max_paths=200)(compute_rdf)


# =====================================================================================================
class _El:
    def __init__(self, m):
        self.mass = m


class _At:
    def __init__(self, i, m):
        self.index, self.element = i, _El(m)


def _shape_traj(ctx, n_frames, n_atoms, with_masses=True):
    X = [[[ctx.real(f"x{f}_{a}_{k}") for k in range(3)] for a in range(n_atoms)] for f in range(n_frames)]
    M = [ctx.real(f"m{a}") for a in range(n_atoms)]
    ctx.assume(*[m > 0 for m in M])

    class TopM:
        atoms = [_At(a, M[a]) for a in range(n_atoms)]

    class T:
        pass
    t = T()
    t.xyz = npobj.oarr((n_frames, n_atoms, 3), lambda f, a, k: X[f][a][k])
    t.n_frames, t.n_atoms, t.top, t.topology = n_frames, n_atoms, TopM, TopM
    return t, X, M


def closed_forms(ctx, case):
    """centre of geometry = mean position; centre of mass = sum m_i x_i / sum m_i; gyration tensor S_ab = 1/N sum (x_a - c_a)(x_b - c_b)
    about the centre of geometry; Rg^2 = sum w_i |x_i - c|^2 with w = m / sum m (uniform without masses) about the centre of
    geometry (the docstring gives no formula; this is what `masses` means in the code).  2 frames x 3 atoms, symbolic values."""
    ex = ctx.ex
    interp = ctx.interp
    interp.import_models["numpy"] = npobj.NumpyO()
    F, A = 2, 3
    t, X, M = _shape_traj(ctx, F, A)
    mean = lambda f, k: sum(rterm(X[f][a][k]) for a in range(A)) / A
    if case in ("center_of_geometry", "center_of_mass"):
        interp.import_models["mdtraj.geometry"] = Namespace("g", _geometry=None)
        mod = ctx.module("mdtraj/geometry/distance.py")
        out = ctx.call(mod.globals["compute_" + case], t)
        ctx.ensure("no-exception", not out.raised)
        if out.raised:
            return
        ctx.cover("returned")
        r = out.value
        msum = sum(rterm(m) for m in M)
        for f in range(F):
            for k in range(3):
                if case == "center_of_geometry":
                    ctx.ensure(f"centre[{f}][{k}]=mean-position", rterm(r[f][k]) == mean(f, k))
                else:
                    ctx.ensure(f"centre[{f}][{k}]*sum(m)=sum(m_i*x_i)", rterm(r[f][k]) * msum == sum(rterm(M[a]) * rterm(X[f][a][k]) for a in range(A)))
    elif case == "gyration_tensor":
        dist = Namespace("distance", compute_center_of_geometry=lambda tr: npobj.oarr((F, 3), lambda f, k: SReal(mean(f, k))))
        interp.import_models["mdtraj.geometry.distance"] = dist
        mod = ctx.module("mdtraj/geometry/shape.py")
        out = ctx.call(mod.globals["compute_gyration_tensor"], t)
        ctx.ensure("no-exception", not out.raised)
        if out.raised:
            return
        ctx.cover("returned")
        r = out.value
        for f in range(F):
            for i in range(3):
                for k in range(3):
                    want = sum((rterm(X[f][a][i]) - mean(f, i)) * (rterm(X[f][a][k]) - mean(f, k)) for a in range(A)) / A
                    ctx.ensure(f"S[{f}][{i}][{k}]=1/N*sum((x-c)_i*(x-c)_k)", rterm(r[f][i][k]) == want)
    else:
        mod = ctx.module("mdtraj/geometry/rg.py")
        masses = None if case == "rg" else npobj.oarr((A,), lambda a: M[a])
        out = ctx.call(mod.globals["compute_rg"], t, masses=masses)
        ctx.ensure("no-exception", not out.raised)
        if out.raised:
            return
        ctx.cover("returned")
        r = out.value
        msum = sum(rterm(m) for m in M)
        for f in range(F):
            d2 = [sum((rterm(X[f][a][k]) - mean(f, k)) * (rterm(X[f][a][k]) - mean(f, k)) for k in range(3)) for a in range(A)]
            v = rterm(r[f])
            if case == "rg":
                w = z3.RealVal(repr(1.0 / A))  # the code's uniform weight 1/N as a double
                ctx.ensure(f"Rg[{f}]>=0-and-Rg^2=1/N*sum|x_i-c|^2", z3.And(v >= 0, v * v == sum(d * w for d in d2)))
            else:
                ctx.ensure(f"Rg[{f}]>=0-and-Rg^2*sum(m)=sum(m_i*|x_i-c|^2)(c=centre-of-geometry)", z3.And(v >= 0, v * v * msum == sum(rterm(M[a]) * d2[a] for a in range(A))))


contract("C16", "mdtraj/geometry/", "compute_center_of_geometry|compute_center_of_mass|compute_gyration_tensor|compute_rg",
         cases=["center_of_geometry", "center_of_mass", "gyration_tensor", "rg"], replay="descriptors", covers=["returned"], max_paths=50)(closed_forms)


# =====================================================================================================
# DRID: running moments (mdtraj/geometry/src/moments.cpp) and the per-atom kernel drid_moments (dridkernels.cpp)
def running_moments(ctx, case):
    """Rep(self, S) for the multiset S pushed so far with power sums s1, s2, s3 and n = |S| >= 1:
           _n = n,  _u = s1/n,  _M2 = sum (x-u)^2 = s2 - n u^2,  _M3 = sum (x-u)^3 = s3 - 3 u s2 + 2 n u^3.
       moments_push(x) re-establishes Rep for S + {x} (exact rational-function identities on the terms the code produces, decided by
       sympy); moments_clear followed by one push gives Rep for {x}; mean / second / third return u, M2/n, M3/n.  By induction the
       one-pass results equal the two-pass definitions for every sequence."""
    import sympy as sp
    from mdvc import polyid
    from mdvc.cinterp import StructObj

    c = ctx.load_c("mdtraj/geometry/src/moments.cpp", ["moments_push", "moments_clear", "moments_mean", "moments_second", "moments_third"],
                   include=("mdtraj/geometry/include",))
    x = ctx.real("x")
    if case == "first-push":
        st = StructObj("moments_t", _n=ctx.int("garbage_n"), _u=ctx.real("garbage_u"), _M2=ctx.real("garbage_M2"), _M3=ctx.real("garbage_M3"))
        o1 = ctx.ccall("moments_clear", st)
        o2 = ctx.ccall("moments_push", st, x)
        ctx.ensure("returns-normally", o1.exc is None and o2.exc is None)
        ctx.cover("pushed")
        ctx.ensure("after-clear-and-one-push:n=1,u=x,M2=0,M3=0", z3.And(core.term(st.fields["_n"]) == 1, rterm(st.fields["_u"]) == rterm(x),
                                                                         rterm(st.fields["_M2"]) == 0, rterm(st.fields["_M3"]) == 0))
        return
    n = ctx.int("n")
    s1, s2, s3 = ctx.real("s1"), ctx.real("s2"), ctx.real("s3")
    ctx.assume(n >= 1)
    nR = z3.ToReal(n.t)
    u = rterm(s1) / nR
    st = StructObj("moments_t", _n=n, _u=SReal(u), _M2=SReal(rterm(s2) - nR * u * u), _M3=SReal(rterm(s3) - 3 * u * rterm(s2) + 2 * nR * u * u * u))
    out = ctx.ccall("moments_push", st, x)
    ctx.ensure("returns-normally", out.exc is None)
    ctx.cover("pushed")
    env = {}
    N, S1, S2, S3, X = (sp.Symbol(k, real=True) for k in ("n", "s1", "s2", "s3", "x"))
    env.update({"n": N, "s1": S1, "s2": S2, "s3": S3, "x": X})
    n1, t1, t2, t3 = N + 1, S1 + X, S2 + X ** 2, S3 + X ** 3
    u1 = t1 / n1
    ctx.ensure("count-incremented", core.term(st.fields["_n"]) == n.t + 1)
    ctx.ensure("Rep-preserved:_u=mean", polyid.rational_equal(rterm(st.fields["_u"]), u1, env), kind="lemma-poly")
    ctx.ensure("Rep-preserved:_M2=sum-of-squared-deviations", polyid.rational_equal(rterm(st.fields["_M2"]), t2 - n1 * u1 ** 2, env), kind="lemma-poly")
    ctx.ensure("Rep-preserved:_M3=sum-of-cubed-deviations", polyid.rational_equal(rterm(st.fields["_M3"]), t3 - 3 * u1 * t2 + 2 * n1 * u1 ** 3, env), kind="lemma-poly")
    m = ctx.ccall("moments_mean", st)
    v2 = ctx.ccall("moments_second", st)
    v3 = ctx.ccall("moments_third", st)
    ctx.ensure("mean=_u,second=_M2/n,third=_M3/n", z3.And(rterm(m.value) == rterm(st.fields["_u"]),
                                                          rterm(v2.value) * z3.ToReal(core.term(st.fields["_n"])) == rterm(st.fields["_M2"]),
                                                          rterm(v3.value) * z3.ToReal(core.term(st.fields["_n"])) == rterm(st.fields["_M3"])))


contract("C16", "mdtraj/geometry/src/moments.cpp", "moments_push|moments_clear|moments_mean|moments_second|moments_third", cases=["first-push", "push"], lang="c",
         replay="drid", covers=["pushed"])(running_moments)


S1 = z3.Function("S1", z3.IntSort(), z3.RealSort())  # power sums of the reciprocal distances of the first i partners
S2 = z3.Function("S2", z3.IntSort(), z3.RealSort())
S3 = z3.Function("S3", z3.IntSort(), z3.RealSort())


def drid_moments(ctx, case=None):
    """drid_moments(coords, index, partners, n): with t_p = 1/|x_index - x_partner[p]| for p < n (all n partners: loop invariant),
       moments = (mean t, sqrt(mean (t - mean)^2), cbrt(mean (t - mean)^3)); the running-moments object is used through its contract
       (Rep of `running_moments`): after pushing t_0..t_{i-1} it represents the power sums S1(i), S2(i), S3(i)."""
    from mdvc import npreal
    from mdvc.cinterp import AddrOf, CLoopSpec, Ptr, Region, StructObj

    ex = ctx.ex
    c = ctx.load_c("mdtraj/geometry/src/dridkernels.cpp", ["drid_moments"], include=("mdtraj/geometry/include",))
    c.struct_types = {"moments_t": ["_n", "_u", "_M2", "_M3"]}
    coords, partners, mom = Region("coords"), Region("partners", "int"), Region("moments")
    for r in (coords, partners, mom):
        r.mem0 = r.mem
    index, n = ctx.int("index"), ctx.int("n_partners")
    ctx.assume(index >= 0, n >= 1)
    I = ctx.int("I")
    X = lambda a, k: z3.Select(coords.mem0, 3 * a + k)
    P = lambda i: z3.Select(partners.mem0, i)
    d2 = lambda i: sum((X(index.t, k) - X(P(i), k)) * (X(index.t, k) - X(P(i), k)) for k in range(3))
    obj = lambda a: a.ref.get() if isinstance(a, AddrOf) else a
    pushes = []

    def clear(interp, args):
        st = obj(args[0])
        st.fields.update(ghost_n=core.SInt(z3.IntVal(0)), s1=z3.RealVal(0), s2=z3.RealVal(0), s3=z3.RealVal(0))

    def push(interp, args):
        st = obj(args[0])
        x = rterm(args[1])
        pushes.append(x)
        st.fields.update(ghost_n=st.fields["ghost_n"] + 1, s1=st.fields["s1"] + x, s2=st.fields["s2"] + x * x, s3=st.fields["s3"] + x * x * x)

    def rep(st):
        nn = z3.ToReal(core.term(st.fields["ghost_n"]))
        u = st.fields["s1"] / nn
        return nn, u

    def mean(interp, args):
        return SReal(rep(obj(args[0]))[1])

    def second(interp, args):
        st = obj(args[0])
        nn, u = rep(st)
        return SReal((st.fields["s2"] - nn * u * u) / nn)

    def third(interp, args):
        st = obj(args[0])
        nn, u = rep(st)
        return SReal((st.fields["s3"] - 3 * u * st.fields["s2"] + 2 * nn * u * u * u) / nn)

    c.call_models.update(moments_clear=clear, moments_push=push, moments_mean=mean, moments_second=second, moments_third=third)
    g = {}

    def havoc(interp, env, gh):
        interp.setvar(env, "i", I)
        st = interp.getvar(env, "onlinemoments")
        g["st"] = st
        st.fields.update(ghost_n=core.SInt(I.t), s1=S1(I.t), s2=S2(I.t), s3=S3(I.t))
        pushes.clear()
        t = 1 / npreal.SQRT(d2(I.t))
        # preconditions (instances): the partner is a different position; definitions of the power sums unfolded at I
        return [I.t >= 0, d2(I.t) > 0, S1(0) == 0, S2(0) == 0, S3(0) == 0,
                S1(I.t + 1) == S1(I.t) + t, S2(I.t + 1) == S2(I.t) + t * t, S3(I.t + 1) == S3(I.t) + t * t * t]

    def inv(interp, env, gh):
        i = term(interp.getvar(env, "i"))
        st = interp.getvar(env, "onlinemoments")
        if gh.get("entry"):
            ex.assume(z3.And(S1(0) == 0, S2(0) == 0, S3(0) == 0))
        return [("0<=i<=n_partners", z3.And(i >= 0, i <= n.t)),
                ("running-moments-represent-the-first-i-reciprocal-distances", z3.And(core.term(st.fields["ghost_n"]) == i, st.fields["s1"] == S1(i), st.fields["s2"] == S2(i), st.fields["s3"] == S3(i))),
                ("power-sums:i*S2(i)>=S1(i)^2-and-S2(i)>=0(the-variance-is-non-negative)", z3.And(z3.ToReal(i) * S2(i) >= S1(i) * S1(i), S2(i) >= 0))]

    def at_end(interp, env, gh):
        ctx.cover("partner-iteration")
        ex.require("exactly-one-value-pushed-per-partner", z3.BoolVal(len(pushes) == 1))
        if len(pushes) == 1:
            ex.require("pushed-value=1/|x_index-x_partner[i]|", pushes[0] == 1 / npreal.SQRT(d2(I.t)))
        ex.require("frame:coordinates,partner-list-not-written", z3.BoolVal(not coords.writes and not partners.writes))

    def exit_state(interp, env, gh):
        interp.setvar(env, "i", core.SInt(n.t))

    c.loop_specs[("drid_moments", 0)] = CLoopSpec(havoc, inv, at_end=at_end, exit_state=exit_state)
    out = ctx.ccall("drid_moments", Ptr(coords, 0), index, Ptr(partners, 0), n, Ptr(mom, 0))
    ctx.ensure("returns-normally", out.exc is None)
    if out.exc is not None:
        return
    ctx.cover("finished")
    nn = z3.ToReal(n.t)
    u = S1(n.t) / nn
    m0, m1, m2 = (z3.Select(mom.mem, k) for k in range(3))
    var = (S2(n.t) - nn * u * u) / nn
    third_c = (S3(n.t) - 3 * u * S2(n.t) + 2 * nn * u * u * u) / nn
    ctx.ensure("moments[0]=mean-reciprocal-distance", m0 == u)
    ctx.ensure("moments[1]=sqrt(second-central-moment)", m1 == npreal.SQRT(var))
    ctx.ensure("moments[2]^3=third-central-moment(cube-root)", m2 * m2 * m2 == third_c)
    ctx.ensure("exactly-three-results-written", z3.BoolVal(len(mom.writes) == 3))


contract("C16", "mdtraj/geometry/src/dridkernels.cpp", "drid_moments", lang="c", replay="drid", covers=["partner-iteration", "finished"])(drid_moments)


# ---- further closed forms: inertia tensor, density, Karplus J-couplings -----------------------------------------------------------------
def inertia_tensor(ctx, case=None):
    """I_ab = sum_i m_i (|r_i|^2 delta_ab - r_ia r_ib) with r_i relative to the centre of mass (docstring formula); 2 frames x 3 atoms, symbolic.
    The centre of mass is taken through its own contract (sum m_i x_i / sum m_i)."""
    interp = ctx.interp
    interp.import_models["numpy"] = npobj.NumpyO()
    F, A = 2, 3
    t, X, M = _shape_traj(ctx, F, A)
    msum = sum(rterm(m) for m in M)
    com = [[sum(rterm(M[a]) * rterm(X[f][a][k]) for a in range(A)) / msum for k in range(3)] for f in range(F)]
    interp.import_models["mdtraj.geometry.distance"] = Namespace("distance", compute_center_of_mass=lambda tr: npobj.oarr((F, 3), lambda f, k: SReal(com[f][k])))
    interp.import_models["mdtraj.utils"] = Namespace("utils", ensure_type=lambda x, *a, **k: x)
    mod = ctx.module("mdtraj/geometry/order.py")
    out = ctx.call(mod.globals["compute_inertia_tensor"], t)
    ctx.ensure("no-exception", not out.raised)
    if out.raised:
        return
    ctx.cover("returned")
    r = out.value
    ctx.ensure("shape=(frames,3,3)", tuple(r.shape) == (F, 3, 3))
    for f in range(F):
        rel = [[rterm(X[f][a][k]) - com[f][k] for k in range(3)] for a in range(A)]
        for i in range(3):
            for k in range(3):
                want = sum(rterm(M[a]) * ((sum(c * c for c in rel[a]) if i == k else 0) - rel[a][i] * rel[a][k]) for a in range(A))
                ctx.ensure(f"I[{f}][{i}][{k}]=sum(m*(r^2*delta-r_i*r_k))about-the-centre-of-mass", rterm(r[f][i][k]) == want, kind="lemma-poly" if False else None)


contract("C16", "mdtraj/geometry/order.py", "compute_inertia_tensor", replay="descriptors", covers=["returned"], max_paths=50)(inertia_tensor)


def density(ctx, case):
    """density = total mass / cell volume, converted from dalton/nm^3 to kg/m^3 (1 Da/nm^3 = 1.66053906660 kg/m^3, CODATA; the code's constant must
    agree to 1e-6 relative); masses from the topology or as given; one value per frame"""
    interp = ctx.interp
    interp.import_models["numpy"] = npobj.NumpyO()
    F, A = 2, 3
    t, X, M = _shape_traj(ctx, F, A)
    V = [ctx.real(f"volume{f}") for f in range(F)]
    ctx.assume(*[v > 0 for v in V])
    t.unitcell_volumes = npobj.oarr((F,), lambda f: V[f])
    interp.import_models["mdtraj"] = Namespace("md")
    interp.import_models["mdtraj.utils"] = Namespace("utils", ensure_type=lambda x, *a, **k: x, unit=Namespace("unit"))
    interp.import_models["mdtraj.utils.unit"] = Namespace("unit")
    mod = ctx.module("mdtraj/geometry/thermodynamic_properties.py")
    given = [ctx.real(f"w{a}") for a in range(A)] if case == "given-masses" else None
    if given:
        ctx.assume(*[w > 0 for w in given])
    out = ctx.call(mod.globals["density"], t, masses=(npobj.oarr((A,), lambda a: given[a]) if given else None))
    ctx.ensure("no-exception", not out.raised)
    if out.raised:
        return
    ctx.cover("returned")
    r = out.value
    mass = sum(rterm(m) for m in (given or M))
    k = z3.RealVal("1.66053906660")
    for f in range(F):
        got = rterm(r[f])
        # got = mass / V * c  with the code's constant c: compare c with CODATA through got*V/mass
        ctx.ensure(f"density[{f}]=total-mass/volume*(Da/nm^3->kg/m^3)(constant-within-1e-6)", z3.And(got * rterm(V[f]) <= mass * k * (1 + z3.RealVal("1e-6")), got * rterm(V[f]) >= mass * k * (1 - z3.RealVal("1e-6"))))


contract("C16", "mdtraj/geometry/thermodynamic_properties.py", "density", cases=["topology-masses", "given-masses"], replay="descriptors", covers=["returned"], max_paths=50)(density)

# Karplus coefficients as published (Voegeli/Bax 2007 Table 1; Schmidt/Ruterjans 1999 Table 1; Hu/Bax 1997): function -> model -> (A, B, C, phase in degrees)
KARPLUS = {
    "compute_J3_HN_HA": {"Bax2007": (8.4, -1.36, 0.33, -60), "Ruterjans1999": (7.90, -1.05, 0.65, -60), "Bax1997": (7.09, -1.42, 1.55, -60)},
    "compute_J3_HN_C": {"Bax2007": (4.36, -1.08, -0.01, 180)},
    "compute_J3_HN_CB": {"Bax2007": (3.71, -0.59, 0.08, 60)},
}


def j_couplings(ctx, case):
    """J = A cos^2(phi + phase) + B cos(phi + phase) + C on the phi torsions (compute_phi: callee, C07), coefficients as published; the
    returned atom indices are compute_phi's"""
    fn, model = case
    from mdvc import npreal
    interp = ctx.interp
    interp.import_models["numpy"] = npobj.NumpyO()
    F, R = 2, 2
    PHI = [[ctx.real(f"phi{f}_{r}") for r in range(R)] for f in range(F)]
    idx = "<indices of the phi quadruplets>"
    interp.import_models["mdtraj.geometry"] = Namespace("geometry", compute_phi=lambda tr, **k: (idx, npobj.oarr((F, R), lambda f, r: PHI[f][r])))
    mod = ctx.module("mdtraj/nmr/scalar_couplings.py")
    out = ctx.call(mod.globals[fn], "<trajectory>", model=model)
    ctx.ensure("no-exception", not out.raised)
    if out.raised:
        return
    ctx.cover("returned")
    ind, J = out.value
    ctx.ensure("indices-are-those-of-compute_phi", ind is idx)
    Ac, Bc, Cc, ph = KARPLUS[fn][model]
    for f in range(F):
        for r in range(R):
            got = rterm(J[f][r])
            # the cosine the code evaluated: find cos(phi + phase) with the code's phase term
            args = [a for a in _cos_args(got)]
            ctx.ensure(f"J[{f}][{r}]:one-cosine-argument", len(args) == 1)
            if len(args) != 1:
                continue
            u = args[0]
            ctx.ensure(f"J[{f}][{r}]:argument=phi+phase({ph}-degrees,within-1e-12)", z3.And(u - rterm(PHI[f][r]) - npreal.PI * ph / 180 <= z3.RealVal("1e-12"), rterm(PHI[f][r]) + npreal.PI * ph / 180 - u <= z3.RealVal("1e-12")))
            c = npreal.COS(u)
            ctx.ensure(f"J[{f}][{r}]=A*cos^2+B*cos+C-with-the-published-{model}-coefficients", got == z3.RealVal(repr(Ac)) * c * c + z3.RealVal(repr(Bc)) * c + z3.RealVal(repr(Cc)))


def _cos_args(t, acc=None):
    acc = [] if acc is None else acc
    if z3.is_app(t):
        if t.decl().name() == "cos":
            a = t.arg(0)
            if not any(a.eq(b) for b in acc):
                acc.append(a)
        for ch in t.children():
            _cos_args(ch, acc)
    return acc


contract("C16", "mdtraj/nmr/scalar_couplings.py", "compute_J3_HN_HA|compute_J3_HN_C|compute_J3_HN_CB", cases=[(f, m) for f, ms in KARPLUS.items() for m in ms],
         replay="descriptors", covers=["returned"], max_paths=50)(j_couplings)
