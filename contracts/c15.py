"""C15 / C08 -- the DSSP driver `dssp` (mdtraj/geometry/src/dssp.cpp) and the small rule predicates.

dssp (frame driver; kabsch_sander, calculate_beta_sheets, calculate_alpha_helices replaced by call records):
   for every frame i: hydrogen bonds are computed by kabsch_sander on THAT frame's coordinates (xyz + 3*n_atoms*i, one frame)
   into a fresh table (-1 = no bond); sheets are assigned from that table on an all-LOOP vector; helices/turns/bends are
   assigned after the sheets, from the same table and THAT frame's coordinates; the skip mask marks exactly the residues lacking
   N, C, O or CA; residue j of frame i gets the character of its final code at secondary[i*n_residues + j] (fixed 8-entry
   table), nothing else is written.   (symbolic n_frames, n_atoms, n_residues: loop invariants)
_test_bond / _residue_test_bridge: the published bridge patterns on the hydrogen-bond table (all paths).
"""
import z3

from mdvc import core
from mdvc.cinterp import CLoopSpec, Ptr, Region, VecRegion, enum_id
from mdvc.core import SInt, term
from mdvc.verify import contract

GEOM = dict(include=("mdtraj/geometry/include", "mdtraj/geometry/src/kernels", "mdtraj/geometry/src"))
FILE = "mdtraj/geometry/src/dssp.cpp"
CODES = {"SS_ALPHAHELIX": "H", "SS_BETABRIDGE": "B", "SS_STRAND": "E", "SS_HELIX_3": "G", "SS_HELIX_5": "I", "SS_TURN": "T", "SS_BEND": "S", "SS_LOOP": " "}


def dssp_driver(ctx, case=None):
    ex = ctx.ex
    c = ctx.load_c(FILE, ["dssp"], **GEOM)
    R = dict(xyz=Region("xyz"), nco=Region("nco_indices", "int"), ca=Region("ca_indices", "int"), pro=Region("is_proline", "int"),
             chain=Region("chain_ids", "int"), sec=Region("secondary", "int"))
    for r in R.values():
        r.mem0 = r.mem
    nf, na, nr = ctx.int("n_frames"), ctx.int("n_atoms"), ctx.int("n_residues")
    ctx.assume(nf >= 0, na >= 1, nr >= 1)
    naT, nrT = term(na), term(nr)
    I, J, S0, RS = ctx.int("I"), ctx.int("J"), ctx.int("S0"), ctx.int("RS")
    g = {"calls": []}

    def incomplete(r):
        sel = lambda t: z3.Select(R["nco"].mem0, t)
        return z3.Or(sel(3 * r) == -1, sel(3 * r + 1) == -1, sel(3 * r + 2) == -1, z3.Select(R["ca"].mem0, r) == -1)

    def skip_fact(r, i, mem):
        return z3.And(z3.Implies(z3.And(r >= 0, r < i), (z3.Select(mem, r) != 0) == incomplete(r)), z3.Implies(r >= i, z3.Select(mem, r) == 0))

    # ---- loop 0: skip mask ------------------------------------------------------------------------
    def l0_havoc(interp, env, gh):
        interp.setvar(env, "i", S0)
        sk = interp.getvar(env, "skip").region
        sk.mem = z3.Array(core.fresh_name("skip@i"), z3.IntSort(), z3.IntSort())
        return [S0.t >= 0]

    def l0_inv(interp, env, gh):
        i = term(interp.getvar(env, "i"))
        sk = interp.getvar(env, "skip").region
        return [("0<=i<=n_residues", z3.And(i >= 0, i <= nrT)), ("skip[r]!=0<=>residue-r-lacks-N,C,O-or-CA(r<i);0-beyond[probe-residue]", skip_fact(RS.t, i, sk.mem))]

    def l0_exit(interp, env, gh):
        interp.setvar(env, "i", SInt(nrT))
        g["skip_region"] = interp.getvar(env, "skip").region
        g["skip_mem"] = g["skip_region"].mem

    c.loop_specs[("dssp", 0)] = CLoopSpec(l0_havoc, l0_inv, exit_state=l0_exit)

    # ---- callees: recorded -----------------------------------------------------------------------
    def rec(name):
        def model(interp, args):
            g["calls"].append((name, args, {"hb_mem": g_hb()[0].mem if g_hb() else None, "sec_mem": g_sec().mem if g_sec() else None}))
            # the callee fills the tables it is given: arbitrary new contents (ss codes stay enumerators: type invariant)
            if name == "kabsch_sander":
                args[7].region.mem = z3.Array(core.fresh_name("hbonds_filled"), z3.IntSort(), z3.IntSort())
                args[8].region.mem = z3.Array(core.fresh_name("henergies_filled"), z3.IntSort(), z3.RealSort())
            else:
                sec = args[-1].region
                sec.mem = z3.Array(core.fresh_name("codes_after_" + name), z3.IntSort(), z3.IntSort())
            return None
        return model

    def g_hb():
        return g.get("hb")

    def g_sec():
        return g.get("sec")

    for nm in ("kabsch_sander", "calculate_beta_sheets", "calculate_alpha_helices"):
        c.call_models[nm] = rec(nm)

    def decl_hook(interp, env, name, v):
        if name == "hbonds" and isinstance(v, VecRegion):
            g["hb"] = (v.region, v.region.mem)
        if name == "henergies" and isinstance(v, VecRegion):
            g["he"] = v.region
        if name == "framesecondary" and isinstance(v, VecRegion):
            g["sec"] = v.region
            g["sec_init"] = v.region.mem
        return v

    c.decl_hook = decl_hook

    # ---- loop 1: frames ---------------------------------------------------------------------------
    def l1_havoc(interp, env, gh):
        interp.setvar(env, "i", I)
        g["calls"] = []
        R["sec"].writes.clear()
        R["sec"].mem = z3.Array(core.fresh_name("secondary@frame"), z3.IntSort(), z3.IntSort())
        return [I.t >= 0]

    def l1_inv(interp, env, gh):
        i = term(interp.getvar(env, "i"))
        return [("0<=i<=n_frames", z3.And(i >= 0, i <= term(nf)))]

    def is_ptr(p, reg, off):
        return z3.And(z3.BoolVal(isinstance(p, Ptr) and p.region is reg), term(p.off) == off) if isinstance(p, Ptr) and p.region is reg else z3.BoolVal(False)

    def l1_end(interp, env, gh):
        ctx.cover("frame-iteration")
        calls = g["calls"]
        names = [x[0] for x in calls]
        ex.require("per-frame:kabsch_sander,then-sheets,then-helices(each-once)", z3.BoolVal(names == ["kabsch_sander", "calculate_beta_sheets", "calculate_alpha_helices"]))
        if names != ["kabsch_sander", "calculate_beta_sheets", "calculate_alpha_helices"]:
            return
        hb_region, hb_init = g["hb"]
        ks, beta, alpha = calls
        a = ks[1]
        frame_off = 3 * naT * I.t
        ex.require("kabsch_sander:this-frame's-coordinates,one-frame", z3.And(is_ptr(a[0], R["xyz"], frame_off), term(a[4]) == 1, term(a[5]) == naT, term(a[6]) == nrT))
        ex.require("kabsch_sander:backbone-index-tables", z3.And(is_ptr(a[1], R["nco"], 0), is_ptr(a[2], R["ca"], 0), is_ptr(a[3], R["pro"], 0)))
        ex.require("kabsch_sander:fills-this-frame's-fresh-tables", z3.And(is_ptr(a[7], hb_region, 0), is_ptr(a[8], g["he"], 0)))
        probe = z3.Int("probe_cell")
        ex.require("hbond-table-starts-empty(-1)-for-every-frame", z3.Select(ks[2]["hb_mem"], probe) == -1)
        b = beta[1]
        ex.require("sheets:from-this-frame's-hbond-table,chain-ids,skip-mask", z3.And(is_ptr(b[0], R["chain"], 0), is_ptr(b[1], hb_region, 0),
                   z3.BoolVal(isinstance(b[2], VecRegion) and b[2].region is g["skip_region"]), term(b[3]) == nrT, z3.BoolVal(isinstance(b[4], VecRegion) and b[4].region is g["sec"])))
        ex.require("sheets:start-from-an-all-LOOP-vector", z3.Select(beta[2]["sec_mem"], probe) == enum_id("SS_LOOP"))
        h = alpha[1]
        ex.require("helices/bends:this-frame's-coordinates", is_ptr(h[0], R["xyz"], frame_off))
        ex.require("helices/bends:from-this-frame's-hbond-table,CA-indices,chain-ids,skip-mask", z3.And(is_ptr(h[1], R["ca"], 0), is_ptr(h[2], R["chain"], 0), is_ptr(h[3], hb_region, 0),
                   z3.BoolVal(isinstance(h[4], VecRegion) and h[4].region is g["skip_region"]), term(h[5]) == naT, term(h[6]) == nrT, z3.BoolVal(isinstance(h[7], VecRegion) and h[7].region is g["sec"])))
        ex.require("skip-mask-unchanged-since-it-was-computed", z3.BoolVal(g["skip_region"].mem is g["skip_mem"]))
        for nm in ("xyz", "nco", "ca", "pro", "chain"):
            ex.require(f"frame:{nm}-not-written", z3.BoolVal(not R[nm].writes))

    c.loop_specs[("dssp", 1)] = CLoopSpec(l1_havoc, l1_inv, at_end=l1_end, exit_state=lambda interp, env, gh: interp.setvar(env, "i", SInt(term(nf))))

    # ---- loop 2: codes -> characters ----------------------------------------------------------------
    valid = [enum_id(k) for k in CODES]

    def l2_havoc(interp, env, gh):
        interp.setvar(env, "j", J)
        R["sec"].writes.clear()
        code = z3.Select(g["sec"].mem, J.t)
        return [J.t >= 0, z3.Or(*[code == v for v in valid])]  # type invariant of ss_t: one of the eight enumerators

    def l2_inv(interp, env, gh):
        j = term(interp.getvar(env, "j"))
        return [("0<=j<=n_residues", z3.And(j >= 0, j <= nrT))]

    def l2_end(interp, env, gh):
        ctx.cover("residue-code")
        w = R["sec"].writes
        ex.require("one-character-written-per-residue", z3.BoolVal(len(w) == 1))
        if len(w) != 1:
            return
        ex.require("written-at-secondary[i*n_residues+j]", w[0][0] == I.t * nrT + J.t)
        code = z3.Select(g["sec"].mem, J.t)
        ex.require("character=fixed-image-of-the-code(H,B,E,G,I,T,S,blank)", z3.And(*[z3.Implies(code == enum_id(k), w[0][1] == ord(ch)) for k, ch in CODES.items()]))

    c.loop_specs[("dssp", 2)] = CLoopSpec(l2_havoc, l2_inv, at_end=l2_end, exit_state=lambda interp, env, gh: interp.setvar(env, "j", SInt(nrT)))

    out = ctx.ccall("dssp", Ptr(R["xyz"], 0), Ptr(R["nco"], 0), Ptr(R["ca"], 0), Ptr(R["pro"], 0), Ptr(R["chain"], 0), nf, na, nr, Ptr(R["sec"], 0))
    ctx.ensure("returns-normally", out.exc is None)
    ctx.cover("finished")


for _p in ("C15", "C08"):
    contract(_p, FILE, "dssp", lang="c", replay="dssp", covers=["frame-iteration", "residue-code", "finished"], max_paths=200)(dssp_driver)


# =====================================================================================================
def test_bridge(ctx, case=None):
    """Kabsch & Sander 1983: with Hbond(x, y) := C=O of x accepts from N-H of y (y donates to x),
         parallel(i,j)      := [Hbond(i-1,j) and Hbond(j,i+1)] or [Hbond(j-1,i) and Hbond(i,j+1)]
         antiparallel(i,j)  := [Hbond(i,j) and Hbond(j,i)]     or [Hbond(i-1,j+1) and Hbond(j-1,i+1)]
       DSSP: only if i-1..i+1 and j-1..j+1 exist and are each in one chain; parallel is tested first."""
    ex = ctx.ex
    c = ctx.load_c(FILE, ["_residue_test_bridge", "_test_bond"], **GEOM)
    hb, chain = Region("hbonds", "int"), Region("chain_ids", "int")
    hb.mem0, chain.mem0 = hb.mem, chain.mem
    i, j, n = ctx.int("i"), ctx.int("j"), ctx.int("n_residues")
    ctx.assume(i >= 0, j >= 0, i < n, j < n)
    out = ctx.ccall("_residue_test_bridge", i, j, n, Ptr(chain, 0), Ptr(hb, 0))
    ctx.ensure("returns-normally", out.exc is None)
    r = term(out.value)

    def H(x, y):  # Hbond(x, y): y donates to x  <=>  x is one of the two acceptors recorded for donor y
        return z3.Or(z3.Select(hb.mem0, 2 * y) == x, z3.Select(hb.mem0, 2 * y + 1) == x)
    I, J = i.t, j.t
    ch = lambda t: z3.Select(chain.mem0, t)
    ok = z3.And(I - 1 >= 0, I + 1 < n.t, ch(I - 1) == ch(I + 1), J - 1 >= 0, J + 1 < n.t, ch(J - 1) == ch(J + 1))
    par = z3.Or(z3.And(H(I - 1, J), H(J, I + 1)), z3.And(H(J - 1, I), H(I, J + 1)))
    anti = z3.Or(z3.And(H(I, J), H(J, I)), z3.And(H(I - 1, J + 1), H(J - 1, I + 1)))
    P, A, NONE = enum_id("BRIDGE_PARALLEL"), enum_id("BRIDGE_ANTIPARALLEL"), enum_id("BRIDGE_NONE")
    ctx.ensure("parallel<=>neighbourhoods-complete-and-parallel-pattern", (r == P) == z3.And(ok, par))
    ctx.ensure("antiparallel<=>neighbourhoods-complete-and-antiparallel-pattern-and-not-parallel", (r == A) == z3.And(ok, anti, z3.Not(par)))
    ctx.ensure("none-otherwise", (r == NONE) == z3.Not(z3.And(ok, z3.Or(par, anti))))
    ctx.ensure("inputs-untouched", z3.BoolVal(not hb.writes and not chain.writes))
    ctx.cover("finished")


contract("C15", FILE, "_residue_test_bridge", lang="c", replay="dssp", covers=["finished"], max_paths=2000)(test_bridge)


def bends(ctx, case=None):
    """S (bend): the angle between CA(i-2)->CA(i) and CA(i)->CA(i+2) exceeds 70 degrees; only for 2 <= i < n-2 with i-2 and i+2
    in one chain and i-2, i, i+2 complete; 0 elsewhere.  (all residues: loop invariant)"""
    from mdvc import npreal

    ex = ctx.ex
    c = ctx.load_c(FILE, ["calculate_bends"], **GEOM)
    xyz, ca, chain = Region("xyz"), Region("ca_indices", "int"), Region("chain_ids", "int")
    for r in (xyz, ca, chain):
        r.mem0 = r.mem
    skipr = Region("skip", "int")
    skipr.mem0 = skipr.mem
    n = ctx.int("n_residues")
    ctx.assume(n >= 0)
    I = ctx.int("I")
    X = lambda a, k: z3.Select(xyz.mem0, 3 * a + k)
    CA = lambda r: z3.Select(ca.mem0, r)
    g = {}

    def havoc(interp, env, gh):
        interp.setvar(env, "i", I)
        b = interp.getvar(env, "is_bend").region
        g["bend"] = b
        b.mem = z3.Array(core.fresh_name("is_bend@i"), z3.IntSort(), z3.IntSort())
        b.writes.clear()
        u = [X(CA(I.t - 2), k) - X(CA(I.t), k) for k in range(3)]
        v = [X(CA(I.t), k) - X(CA(I.t + 2), k) for k in range(3)]
        # precondition instance: consecutive-but-one CA atoms do not coincide
        return [I.t >= 2, sum(x * x for x in u) > 0, sum(x * x for x in v) > 0]

    def inv(interp, env, gh):
        i = term(interp.getvar(env, "i"))
        return [("2<=i<=max(2,n-2)", z3.And(i >= 2, z3.Or(i <= n.t - 2, i == 2)))]

    def at_end(interp, env, gh):
        ctx.cover("residue-iteration")
        b = g["bend"]
        eligible = z3.And(z3.Select(chain.mem0, I.t - 2) == z3.Select(chain.mem0, I.t + 2), z3.Select(skipr.mem0, I.t - 2) == 0, z3.Select(skipr.mem0, I.t) == 0,
                          z3.Select(skipr.mem0, I.t + 2) == 0)
        ex.require("ineligible-residue:nothing-written(stays-0)", z3.Or(eligible, z3.BoolVal(not b.writes)))
        if b.writes:
            ctx.cover("bend-tested")
            ex.require("eligible-residue:exactly-is_bend[i]-written", z3.And(z3.BoolVal(len(b.writes) == 1), b.writes[0][0] == I.t))
            u = [X(CA(I.t - 2), k) - X(CA(I.t), k) for k in range(3)]
            v = [X(CA(I.t), k) - X(CA(I.t + 2), k) for k in range(3)]
            dot = sum(a * bb for a, bb in zip(u, v))
            nn = npreal.SQRT(sum(a * a for a in u) * sum(a * a for a in v))
            cosv = dot / nn
            cl = z3.If(cosv < -1, z3.RealVal(-1), z3.If(cosv > 1, z3.RealVal(1), cosv))
            kappa = npreal.ACOS(cl)
            lit = 70 * (3.14159265358979323846 / 180.0)
            wv = b.writes[0][1]
            ex.require("is_bend[i]<=>angle(CA[i-2]->CA[i],CA[i]->CA[i+2])>70-degrees", (wv if z3.is_bool(wv) else wv != 0) == (kappa > z3.RealVal(repr(lit))))
        for r in (xyz, ca, chain, skipr):
            ex.require(f"frame:{r.name}-not-written", z3.BoolVal(not r.writes))

    def literals(node, kind):
        out = []
        if isinstance(node, dict):
            if node.get("kind") == kind:
                out.append(float(node["value"]))
            for ch in node.get("inner", []) or []:
                out += literals(ch, kind)
        return out
    fd = c.functions["calculate_bends"]
    ctx.ensure("constant:bend-threshold-is-70-degrees(70*(pi/180))", z3.BoolVal(70.0 in literals(fd, "IntegerLiteral") and 180.0 in literals(fd, "FloatingLiteral")
               and any(abs(v - 3.14159265358979) < 1e-12 for v in literals(fd, "FloatingLiteral"))))
    c.loop_specs[("calculate_bends", 0)] = CLoopSpec(havoc, inv, at_end=at_end, exit_state=lambda interp, env, gh: None)
    sk = VecRegion(skipr)
    out = ctx.ccall("calculate_bends", Ptr(xyz, 0), Ptr(ca, 0), Ptr(chain, 0), n, sk)
    ctx.ensure("returns-normally", out.exc is None)
    ctx.cover("finished")


contract("C15", FILE, "calculate_bends", lang="c", replay="dssp", covers=["residue-iteration", "bend-tested", "finished"], max_paths=200)(bends)


# =====================================================================================================
# helices, turns, bends: calculate_alpha_helices on a chain of fixed length with a SYMBOLIC hydrogen-bond relation
HB = z3.Function("HB", z3.IntSort(), z3.IntSort(), z3.BoolSort())  # HB(donor, acceptor): `_test_bond`'s contract (one of the donor's two slots)
import os as _os  # noqa: E402

_HELIX_SIZES = (7, 8) if _os.environ.get("MDVC_TIER") == "thorough" else (7,)
HELIX_CASES = [(n, v) for n in _HELIX_SIZES for v in ("plain", "two-chains", "strand-and-gap")]
# longer chains with a restricted set of possible hydrogen bonds (every other pair is not bonded): long pi helices (a residue that
# both ends one 5-turn and starts the next), pi over alpha, 3-10 next to alpha
HELIX_CANDIDATES = {
    "pi-long": (13, [(i + 5, i) for i in range(0, 8)]),
    "alpha-pi-310": (12, [(4, 0), (5, 1), (6, 2), (6, 1), (7, 2), (8, 3), (9, 6), (10, 7)]),
}
HELIX_CASES += [(n, v) for v, (n, _c) in HELIX_CANDIDATES.items()]


def helix_spec(n, chain, skip, init, bend):
    """Kabsch & Sander 1983 / DSSP 2.x, written from the rules (not from the code), as formulas over HB:
       n-turn(i)    := HB(i+n, i) and i, i+n in one chain
       minimal helix: two consecutive n-turns at i-1 and i  ->  residues i .. i+n-1
       H (n=4) first; G (n=3) only on residues that are all loop or G; I (n=5) on residues that are all loop, I or H (pi helices are
       preferred over alpha helices);  T: a loop residue strictly inside some n-turn;  S: a loop residue with a bend; ends stay loop."""
    LOOP, H, G, I5, T, S = (enum_id(k) for k in ("SS_LOOP", "SS_ALPHAHELIX", "SS_HELIX_3", "SS_HELIX_5", "SS_TURN", "SS_BEND"))

    def turn(k, i):
        if i < 0 or i + k >= n or chain[i] != chain[i + k]:
            return z3.BoolVal(False)
        return HB(i + k, i)
    start = lambda k, i: z3.And(turn(k, i - 1), turn(k, i)) if i >= 1 else z3.BoolVal(False)
    Hs = [z3.Or([start(4, i) for i in range(1, n - 4) if i <= j <= i + 3] or [z3.BoolVal(False)]) for j in range(n)]
    after_h = [z3.If(Hs[j], H, init[j]) for j in range(n)]
    g_ok = lambda i: z3.And(start(3, i), *[z3.Or(after_h[m] == LOOP, after_h[m] == G) for m in range(i, i + 3)])
    Gs = [z3.Or([g_ok(i) for i in range(1, n - 3) if i <= j <= i + 2] or [z3.BoolVal(False)]) for j in range(n)]
    after_g = [z3.If(Gs[j], G, after_h[j]) for j in range(n)]
    i_ok = lambda i: z3.And(start(5, i), *[z3.Or(after_g[m] == LOOP, after_g[m] == I5, after_g[m] == H) for m in range(i, i + 5)])
    Is = [z3.Or([i_ok(i) for i in range(1, n - 5) if i <= j <= i + 4] or [z3.BoolVal(False)]) for j in range(n)]
    after_i = [z3.If(Is[j], I5, after_g[j]) for j in range(n)]
    out = []
    for j in range(n):
        if j == 0 or j == n - 1 or skip[j]:
            out.append(after_i[j])
            continue
        inside = z3.Or([turn(k, j - d) for k in (3, 4, 5) for d in range(1, k) if j - d >= 0] or [z3.BoolVal(False)])
        out.append(z3.If(after_i[j] == LOOP, z3.If(inside, T, z3.If(z3.BoolVal(bool(bend[j])), S, LOOP)), after_i[j]))
    return out


def alpha_helices(ctx, case):
    from mdvc.cinterp import StdVector
    from mdvc.core import SBool

    n, variant = case
    ex = ctx.ex
    c = ctx.load_c(FILE, ["calculate_alpha_helices"], **GEOM)
    chain = [0] * n if variant != "two-chains" else [0] * (n - 3) + [1] * 3
    cand = HELIX_CANDIDATES[variant][1] if variant in HELIX_CANDIDATES else None
    if cand is not None:
        # precondition of this case: only the candidate pairs can be hydrogen bonded
        ctx.assume(*[z3.Not(HB(d, a)) for d in range(n) for a in range(n) if (d, a) not in cand])
    skip = [0] * n
    init = [enum_id("SS_LOOP")] * n
    if variant == "strand-and-gap":
        init[2] = enum_id("SS_STRAND")  # assigned by the sheet pass before: blocks G and I there
        skip[n - 2] = 1  # an incomplete residue
    bend = [(j % 2) for j in range(n)]
    chain_r, hb_r, xyz, ca = Region("chain_ids", "int"), Region("hbonds", "int"), Region("xyz"), Region("ca_indices", "int")
    chain_r.local = list(chain)
    def test_bond(interp, args):
        d, a = (x if isinstance(x, int) else ex.concrete_int(term(x)) for x in args[:2])
        if cand is not None and (d, a) not in cand:
            return False
        return SBool(HB(term(args[0]), term(args[1])))

    c.call_models["_test_bond"] = test_bond
    calls = []

    def bends_model(interp, args):
        calls.append(args)
        return StdVector(list(bend))

    c.call_models["calculate_bends"] = bends_model
    sec = StdVector(list(init))
    sk = StdVector(list(skip))
    out = ctx.ccall("calculate_alpha_helices", Ptr(xyz, 0), Ptr(ca, 0), Ptr(chain_r, 0), Ptr(hb_r, 0), sk, 3 * n, n, sec)
    ctx.ensure("returns-normally", out.exc is None)
    if out.exc is not None:
        return
    ctx.cover("finished")
    ctx.ensure("bends-computed-once-from-the-coordinates,CA-table,chains,skip-mask-it-was-given", z3.BoolVal(
        len(calls) == 1 and calls[0][0].region is xyz and calls[0][1].region is ca and calls[0][2].region is chain_r and calls[0][4] is sk))
    want = helix_spec(n, chain, skip, init, bend)
    for j in range(n):
        got = sec.items[j]
        ctx.ensure(f"residue{j}:code=DSSP-rules(H,G,I-priorities,turn,bend)", term(got) == want[j])
    ctx.ensure("skip-mask-untouched", z3.BoolVal(sk.items == skip))


for _hc in HELIX_CASES:  # one registration per case: explored and discharged in parallel
    contract("C15", FILE, "calculate_alpha_helices", cases=[_hc], lang="c", replay="dssp", covers=["finished"], max_paths=60000)(alpha_helices)


# =====================================================================================================
# sheets: calculate_beta_sheets on chains of fixed length; the bridge relation is decided pair by pair on the path
def sheet_reference(n, chain, skip, bridge_type):
    """ladders, bulges, E/B -- written from Kabsch & Sander 1983 and the DSSP ladder rules:
       bridges (i, j), i < j - 2, both complete;  a ladder is a maximal run of consecutive bridges of one type
       ((i+1, j+1) parallel, (i+1, j-1) antiparallel);  two ladders of one type on unbroken strands are joined over a bulge when the
       gap is at most 4 residues on one strand and at most 1 on the other (the second ladder further along both strands: higher j
       for parallel, lower j for antiparallel; ladders that overlap on the first strand are not joined);  ladders are scanned in
       order of (chain, first residue), a joined ladder keeps scanning;  E for residues spanned by a ladder of >= 2 bridges,
       B for a single bridge, E wins."""
    NONE, PAR, ANTI = "none", "parallel", "antiparallel"
    ladders = []
    for i in range(1, n - 4):
        for j in range(i + 3, n - 1):
            t = bridge_type(j, i)
            if t == NONE or skip[i] or skip[j]:
                continue
            for lad in ladders:
                if lad["type"] != t or lad["i"][-1] + 1 != i:
                    continue
                if t == PAR and lad["j"][-1] + 1 == j:
                    lad["i"].append(i), lad["j"].append(j)
                    break
                if t == ANTI and lad["j"][0] - 1 == j:
                    lad["i"].append(i), lad["j"].insert(0, j)
                    break
            else:
                ladders.append(dict(type=t, i=[i], j=[j], ci=chain[i], cj=chain[j]))
    ladders.sort(key=lambda L: (L["ci"], L["i"][0]))  # stable
    a = 0
    while a < len(ladders):
        b = a + 1
        while b < len(ladders):
            A, B = ladders[a], ladders[b]
            ibi, iei, jbi, jei = A["i"][0], A["i"][-1], A["j"][0], A["j"][-1]
            ibj, iej, jbj, jej = B["i"][0], B["i"][-1], B["j"][0], B["j"][-1]
            same_strands = chain[min(ibi, ibj)] == chain[max(iei, iej)] and chain[min(jbi, jbj)] == chain[max(jei, jej)]
            gap_i = ibj - iei - 1
            overlap = iei >= ibj and ibi <= iej
            ok = A["type"] == B["type"] and same_strands and gap_i <= 4 and not overlap
            if ok:
                if A["type"] == PAR:
                    gap_j = jbj - jei - 1
                    link = jbj > jbi and ((gap_j <= 4 and gap_i <= 1) or gap_j <= 1)
                else:
                    gap_j = jbi - jej - 1
                    link = jbj < jbi and ((gap_j <= 4 and gap_i <= 1) or gap_j <= 1)
            if ok and link:
                A["i"] = A["i"] + B["i"]
                A["j"] = (A["j"] + B["j"]) if A["type"] == PAR else (B["j"] + A["j"])
                del ladders[b]
                continue
            b += 1
        a += 1
    code = [" "] * n
    for L in ladders:
        ss = "E" if len(L["i"]) > 1 else "B"
        for strand in (L["i"], L["j"]):
            for r in range(strand[0], strand[-1] + 1):
                if code[r] != "E":
                    code[r] = ss
    return code


# (name, n, chain ids, skip, candidate pairs (i, j) that MAY be bridges -- every other pair is not)
_par_bulge = [(1, 9), (2, 10), (7, 12), (8, 13), (3, 11), (6, 12)]
_anti = [(1, 14), (2, 13), (3, 12), (7, 10), (8, 9 + 3), (5, 10)]
SHEET_CASES = [
    ("all-pairs-n8", 8, [0] * 8, [0] * 8, None),
    ("parallel-bulge-gap4/1-n16", 16, [0] * 16, [0] * 16, _par_bulge),
    ("parallel-gap5-n17", 17, [0] * 17, [0] * 17, [(1, 10), (2, 11), (8, 13), (9, 14), (7, 13)]),
    ("antiparallel-bulge-n16", 16, [0] * 16, [0] * 16, _anti),
    ("two-chains-n14", 14, [0] * 7 + [1] * 7, [0] * 14, [(1, 8), (2, 9), (3, 10), (5, 12), (4, 11), (2, 5)]),
    ("incomplete-partner-n12", 12, [0] * 12, [0, 0, 0, 0, 0, 0, 0, 1, 0, 0, 0, 0], [(1, 7), (2, 8), (2, 6), (3, 7), (1, 9), (3, 9)]),
]


def beta_sheets(ctx, case):
    from mdvc.cinterp import StdVector

    name, n, chain, skip, cand = case
    ex = ctx.ex
    c = ctx.load_c(FILE, ["calculate_beta_sheets"], **GEOM)
    ctx.load_records(FILE, ["Bridge"], include=GEOM["include"])
    chain_r, hb_r = Region("chain_ids", "int"), Region("hbonds", "int")
    chain_r.local = list(chain)
    NONE, PAR, ANTI = enum_id("BRIDGE_NONE"), enum_id("BRIDGE_PARALLEL"), enum_id("BRIDGE_ANTIPARALLEL")
    decided = {}

    def bridge_model(interp, args):
        a, b = (x if isinstance(x, int) else ex.concrete_int(term(x)) for x in args[:2])
        key = (a, b)
        if key not in decided:
            if cand is not None and (b, a) not in cand:
                decided[key] = "none"
            else:
                # the contract of _residue_test_bridge: one of three values, decided here for this path (all 3^k tables are explored)
                br = z3.Int(f"BR({a},{b})")
                ex.assume(z3.Or(br == NONE, br == PAR, br == ANTI))
                decided[key] = "none" if ex.branch(br == NONE) else ("parallel" if ex.branch(br == PAR) else "antiparallel")
        return {"none": NONE, "parallel": PAR, "antiparallel": ANTI}[decided[key]]

    c.call_models["_residue_test_bridge"] = bridge_model
    sec = StdVector([enum_id("SS_LOOP")] * n)
    sk = StdVector(list(skip))
    out = ctx.ccall("calculate_beta_sheets", Ptr(chain_r, 0), Ptr(hb_r, 0), sk, n, sec)
    ctx.ensure("returns-normally", out.exc is None)
    if out.exc is not None:
        return
    ctx.cover("finished")
    want = sheet_reference(n, chain, skip, lambda a, b: decided.get((a, b), "none"))
    names = {enum_id("SS_LOOP"): " ", enum_id("SS_STRAND"): "E", enum_id("SS_BETABRIDGE"): "B"}
    got = [names.get(v if isinstance(v, int) else ex.concrete_int(term(v)), "?") for v in sec.items]
    if any(t != "none" for t in decided.values()):
        ctx.cover("some-bridge")
    ctx.ensure("E/B-assignment=ladders-and-bulges-of-the-DSSP-rules-for-this-bridge-table", z3.BoolVal(got == want))
    ctx.ensure("skip-mask-untouched", z3.BoolVal(sk.items == skip))


for _case in SHEET_CASES:
    contract("C15", FILE, "calculate_beta_sheets", cases=[_case], lang="c", replay="dssp", covers=["finished", "some-bridge"], max_paths=5000)(beta_sheets)


# =====================================================================================================
# compute_dssp (mdtraj/geometry/dssp.py) and _prep_kabsch_sander_arrays (hbond.py): what is handed to the kernel, the 'NA'
# overlay and the simplified alphabet
def compute_dssp_py(ctx, case):
    import numpy as np
    from mdvc.pyinterp import Namespace

    simplified = case
    interp = ctx.interp
    interp.import_models["numpy"] = np  # everything here is concrete: NumPy itself
    codes = "HBEGITS "
    R, F = len(codes) + 2, 2
    calls = []

    class At:
        def __init__(self, i, name):
            self.index, self.name = i, name

    class Ch:
        def __init__(self, i):
            self.index = i

    class Res:
        def __init__(self, i, name, atoms, chain):
            self.index, self.name, self.atoms, self.chain = i, name, atoms, chain

    residues, k = [], 0
    for r in range(R):
        names = ["N", "CA", "C", "O", "CB"]
        if r == 3:
            names = ["N", "CA", "C"]  # lacks O: not a complete protein residue
        if r == R - 1:
            names = ["O", "H1", "H2"]  # a water
        atoms = []
        for nm in names:
            atoms.append(At(k, nm))
            k += 1
        residues.append(Res(r, "PRO" if r == 5 else "ALA", atoms, Ch(0 if r < 6 else 1)))

    class Top:
        pass
    top = Top()
    top.residues = residues

    class T:
        pass
    t = T()
    t.topology = t.top = top
    t.xyz = np.zeros((F, k, 3), dtype=np.float32)
    complete = [r != 3 and r != R - 1 for r in range(R)]
    row = "".join(codes[j % len(codes)] for j in range(R))
    kernel_out = row + row[::-1]

    def _dssp(xyz, nco, ca, pro, chain_ids):
        calls.append(dict(xyz=xyz, nco=np.array(nco), ca=np.array(ca), pro=np.array(pro), chain=np.array(chain_ids)))
        return kernel_out

    interp.import_models["mdtraj.geometry"] = Namespace("geometry", _geometry=Namespace("_geometry", _dssp=_dssp))
    hb = ctx.module("mdtraj/geometry/hbond.py")
    interp.import_models["mdtraj.geometry.hbond"] = Namespace("hbond", _prep_kabsch_sander_arrays=hb.globals["_prep_kabsch_sander_arrays"])
    mod = ctx.module("mdtraj/geometry/dssp.py")
    out = ctx.call(mod.globals["compute_dssp"], t, simplified=simplified)
    ctx.ensure("no-exception", not out.raised)
    if out.raised:
        return
    ctx.cover("returned")
    ctx.ensure("kernel-called-once", len(calls) == 1)
    if len(calls) != 1:
        return
    kc = calls[0]
    idx = lambda r, nm: next((a.index for a in residues[r].atoms if a.name == nm), -1)
    ctx.ensure("kernel-gets-the-coordinates", kc["xyz"] is t.xyz or np.array_equal(kc["xyz"], t.xyz))
    ctx.ensure("N,C,O-index-table(-1-for-a-missing-atom)", kc["nco"].tolist() == [[idx(r, "N"), idx(r, "C"), idx(r, "O")] for r in range(R)])
    ctx.ensure("CA-index-table(-1-for-a-missing-atom)", kc["ca"].tolist() == [idx(r, "CA") for r in range(R)])
    ctx.ensure("proline-flags", kc["pro"].tolist() == [1 if residues[r].name == "PRO" else 0 for r in range(R)])
    ctx.ensure("chain-index-per-residue", kc["chain"].tolist() == [residues[r].chain.index for r in range(R)])
    res = out.value
    ctx.ensure("shape=(n_frames,n_residues)", tuple(res.shape) == (F, R))
    simp = {"H": "H", "G": "H", "I": "H", "E": "E", "B": "E", "T": "C", "S": "C", " ": "C"}
    ok = True
    for f in range(F):
        for r in range(R):
            kc_ = kernel_out[f * R + r]
            want = "NA" if not complete[r] else (simp[kc_] if simplified else kc_)
            ok = ok and str(res[f][r]) == want
    ctx.ensure("residue-code=kernel's-code(or-its-fixed-three-letter-image);'NA'-exactly-for-residues-lacking-N,CA,C-or-O", ok)


contract("C15", "mdtraj/geometry/dssp.py", "compute_dssp", cases=[False, True], replay="dssp", covers=["returned"])(compute_dssp_py)
